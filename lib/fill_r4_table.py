import json, glob, re
rows = []
for d in sorted(glob.glob('/verif/seeded/R4-*')):
    try:
        m = json.load(open(d + '/meta.json'))
    except Exception:
        pid = d.split('R4-')[1]
        rows.append(f"| R4-{pid} | (confirmed; see patch.diff) | not evaluated in the time left |")
        continue
    s = (m.get('summary') or '').replace('|', '\\|').replace('\n', ' ')
    n = (m.get('needs_in_order_to_manifest') or '').replace('|', '\\|').replace('\n', ' ')
    s = s[:230] + ('...' if len(s) > 230 else '')
    n = n[:200] + ('...' if len(n) > 200 else '')
    c = m.get('checks_run_against_it', {})
    if not c:
        v = 'not evaluated in the time left'
    else:
        parts = []
        for k, r in c.items():
            if r['exit'] == 1 and r['violation_keys']:
                parts.append(f"**{k}** ({len(r['violation_keys'])} finding keys, first: `{r['violation_keys'][0]}`; {r['seconds']} s)")
            elif r['exit'] == 2:
                parts.append(f"{k}: inconclusive (exit 2, no VIOLATION line)")
            elif r['exit'] == 0:
                parts.append(f"{k}: **missed** (exit 0)")
            else:
                parts.append(f"{k}: exit {r['exit']}")
        v = '; '.join(parts)
    rows.append(f"| {m['id']} | {s} ({n}) | {v} |")
p = '/verif/DESIGN.md'
t = open(p).read()
if 'R4TABLE' in t:
    t = t.replace('R4TABLE', '<!--R4-BEGIN-->\n' + '\n'.join(rows) + '\n<!--R4-END-->')
else:
    t = re.sub(r'<!--R4-BEGIN-->.*<!--R4-END-->', lambda _: '<!--R4-BEGIN-->\n' + '\n'.join(rows) + '\n<!--R4-END-->', t, flags=re.S)
open(p, 'w').write(t)
print(len(rows))
