"""Static per-property descriptions used by the `check` driver (engine binaries, Kani harness groups,
explanations that go into the evidence files)."""

R_TRUST = [
    "engine S (harness/src/engine): term-recording scalar `Sym`, DFS path explorer, SMT-LIB emission",
    "mode R reads every float operation as the exact real operation (no rounding claim)",
]
O_TRUST = [
    "engine S (harness/src/engine): term-recording scalar `Sym`, DFS path explorer, SMT-LIB emission",
    "mode O: IEEE comparison semantics bit-precise (SMT FloatingPoint sort), arithmetic as uninterpreted functions (sound over-approximation)",
    "IEEE refinement: a counterexample admitted by the uninterpreted arithmetic is re-decided with + - * / as the IEEE-754 operations (z3 / cvc5 QF_FP, fresh process); unsat discharges the obligation, sat yields real doubles for the native replay; % / rem_euclid / powi stay uninterpreted",
]

HOOKS = {
    "guard": "ndarray_interp_verif",
    "enable": "RUSTFLAGS=\"--cfg ndarray_interp_verif\" (set by ./check for every harness build)",
    "baseline_off_cmd": "cd /repo && cargo test --workspace --no-fail-fast --offline",
    "source_commits": ["59531ba", "8bb3fdb"],
    "add_only": True,
}

K_TRUST = ["Kani 0.68.0 (its model of Rust semantics and of the standard library), CBMC 6.11.0, cadical"]

PROPS = {
    "C17": {
        "bin": "c17",
        "compile_assert_bin": "c17_sendsync",
        "explanation": "History independence in mode O: for every history of up to 3 (4) in-between calls drawn from {single queries at other abscissae, scalar query, batch, out-of-range query returning Err, wrongly shaped buffer call "
                       "whose panic is caught, correct buffer call} on one real interpolator, the first query q1 (a symbol: every non-NaN double) repeated afterwards through interp, interp_into, interp_scalar and as first batch element "
                       "returns the same recorded term as the first call (term identity, else z3); all data are symbols. Compile-time half: a binary instantiating `T: Send + Sync` for owned, view and shared storage of every strategy - "
                       "its failure to compile is reported as the violation. Concurrent schedules are NOT decided.",
        "trusted_base": O_TRUST + ["rustc's auto-trait inference for the Send + Sync assertions"],
        "technique": "symbolic execution of enumerated call histories on one interpolator with a symbolic repeated query; equality of answers by term identity / z3 QF_FP+UF; compile-time Send + Sync assertions",
        "level_text": "Bounded symbolic model checking over all histories of length <= 3 (quick) / 4 (thorough) of 6-7 call kinds x 4 (7) interpolators with all data and the repeated query symbolic: catches lookup caches, memoised last interval, scratch buffers reused across calls, state left behind by failed or panicked calls.",
        "level_note": "Trusted: engine S, z3, rustc. The `schedules` part of the quantifier (other threads querying concurrently) is outside: neither engine models threads; only Send + Sync is established (at compile time).",
    },
    "C18": {
        "bin": "c18",
        "explanation": "Mode O with a symbolic (recording / failing) custom strategy for Interp1D and Interp2D, generic over the declared minimum 0..4: on every path where the strategy's build ran, z3 proves that the path condition at that "
                       "moment implies the received axes are strictly increasing (all IEEE values) and the lengths match and reach the minimum; interp_into receives exactly the caller's query terms, in order, with targets of the data shape minus "
                       "the interpolated axes, from all five entry points; failure injection in build and at every call index is a free boolean (each failure schedule is a path) and the error reaches the caller with the same variant and message; "
                       "index_point returns (axis[i], data[i]) as term identities and is_in_range is decided against the closed-range test.",
        "trusted_base": O_TRUST,
        "technique": "symbolic execution with a recording strategy whose failures are solver booleans; z3 QF_FP for 'validated before strategy.build' and is_in_range; term identity for pass-through of queries, targets and errors",
        "level_text": "Bounded symbolic model checking over 711 (thorough 1101) configurations x all failure schedules x all axis / data / query values: the documented guarantees of the strategy traits hold for every user-defined strategy that behaves like the recording one.",
        "level_note": "Trusted: engine S, z3. Data ranks <= 4, minimum <= 4, batches <= 3. Strategies that panic are outside.",
    },
    "C19": {
        "bin": "c19",
        "engine": "S+K",
        "kani": {
            "quick": [],
            "thorough": ["c19_fastpath_f64", "c19_fastpath_i32"],
            "stubbing": True,
            "timeout_s": {"quick": 60, "thorough": 3600},
            "functions": ["cast_unchecked", "interp1d::Interp1D::interp_array_into", "interp1d::Interp1D::interp_array_into_1d"],
            "bounds": {"quick": [], "thorough": ["engine K: fast path (Ix1 query) and general path (IxDyn rank 1) of Interp1D::interp_array_into on the real f64 and i32 code, concrete 2-point data, one symbolic choice between two query vectors: CBMC's memory model checks ptr::read through the transmuted pointer and every access that follows; alloc::fmt::format stubbed"]},
            "assumptions": ["alloc::fmt::format is stubbed in the engine K harness (error paths build their messages with format!)"],
        },
        "explanation": "(a) Exhaustive enumeration (not solving) of the finite instantiation set: every (data dimension type) x (query variant) x (data storage) x (element type incl. Sym) x (Interp1D, Interp2D) is compiled and executed with the hook on: "
                       "inside cast_unchecked type_name / size_of / align_of of source and destination must be equal and the per-thread cast counter must move exactly for static Ix1 queries. (b) Solver-based, mode O: with symbolic axes, data and "
                       "queries the fast path, the general path on the same query as IxDyn of rank 1 and as a 1 x k Ix2 query return the same outcome and the same IEEE values through interp_array and interp_array_into. (c) thorough: engine K "
                       "runs both paths on the real f64 / i32 code under CBMC's memory model.",
        "trusted_base": O_TRUST + K_TRUST + ["the hook in /repo/src/lib.rs (cfg ndarray_interp_verif)", "harness/src/api.rs forwarding layer"],
        "technique": "hook-instrumented enumeration of all monomorphisations (type identity) + symbolic two-path equality in mode O (z3 QF_FP/UF, term identity) + Kani/CBMC memory-model run (thorough)",
        "level_text": "The type-identity half is a finite configuration space enumerated completely (1800 instantiation x query cases); the unobservability half is bounded symbolic model checking over all IEEE values; pointer validity of the cast is model-checked by CBMC on concrete data in the thorough tier.",
        "level_note": "Trusted: the hook, engine S, Kani/CBMC. type_name omits lifetimes (identity up to lifetimes). CubicSpline strategies are not part of the instantiation matrix (the cast types do not mention the strategy).",
    },
    "C11": {
        "bin": "c11",
        "engine": "K+S",
        "kani": {
            "quick": ["c11_lower_idx_f32_n2", "c11_lower_idx_i32_n4", "c11_lower_idx_i64_n4"],
            "thorough": ["c11_lower_idx_f32_n2", "c11_lower_idx_f32_n3", "c11_lower_idx_f32_n4", "c11_lower_idx_f32_n5", "c11_lower_idx_f32_n6", "c11_lower_idx_f64_n2", "c11_lower_idx_f64_n3",
                         "c11_lower_idx_f64_n4", "c11_lower_idx_f64_n5", "c11_lower_idx_i32_n4", "c11_lower_idx_i32_n6", "c11_lower_idx_i64_n4", "c11_index_left_of_1d_2d_f64"],
            "timeout_s": {"quick": 1200, "thorough": 6 * 3600},
            "functions": ["vector_extensions::VectorExtensions::get_lower_index", "interp1d::strategies::linear::Linear::calc_frac", "interp1d::Interp1D::get_index_left_of", "interp2d::Interp2D::get_index_left_of"],
            "bounds": {"quick": ["engine K: get_lower_index on ArrayView1<f32> of length 2, ArrayView1<i32> and <i64> of length 4; array contents and query fully symbolic (all bit patterns) under the statement's preconditions; unwinding assertions on"],
                       "thorough": ["engine K: get_lower_index on f32 lengths 2..6, f64 lengths 2..5, i32 lengths 4 and 6, i64 length 4, and Interp1D / Interp2D::get_index_left_of (3 and 3x2 points, f64); contents and query fully symbolic"]},
            "assumptions": ["Kani harness preconditions = those of the statement: strictly increasing axis, span and (len-1)/span finite, query not NaN; integers: |axis| <= 5e8 (i32) / 2e18 (i64) and |query| <= twice that, so span and query - first do not overflow"],
        },
        "explanation": "Engine K (Kani/CBMC, bit-precise): the real get_lower_index on the f32 / f64 / i32 / i64 monomorphs with array contents and query fully symbolic under exactly the stated preconditions; asserts index <= len-2, "
                       "bracketing inside the range, clamps at and beyond both ends, and (through CBMC's own checks) no panic, no out-of-bounds index, no failed cast. Engine S (mode O): for axis lengths up to 10 (14) the clamps, "
                       "EVERY possible initial guess 0..=len-1 and the binary search are explored and z3 proves per path that the returned index brackets the query for all IEEE axis values and queries.",
        "trusted_base": O_TRUST + K_TRUST,
        "technique": "Kani/CBMC bit-precise proof harnesses over kani::any() arrays and queries (float arithmetic of the guess included) + symbolic execution of the search with z3 QF_FP for longer axes",
        "level_text": "Bounded model checking: engine K decides the complete routine (guess arithmetic, cast, search) for all bit patterns at small lengths; engine S decides the search for every guess position and every order position of the query up to length 10 / 14. Right level: the floats adjacent to each knot, +-inf, +-MAX and -0 are ordinary values of the symbolic query.",
        "level_note": "Trusted: Kani, CBMC, engine S, z3. Lengths above the bounds (10^4 of the quantifier text; f32 guess overflow at n >= 2^23) are outside. f64 at lengths 2..5 and f32 at 3..6 only in the thorough tier (minutes to hours of SAT time each).",
    },
    "C12": {
        "bin": "c12",
        "engine": "K+S",
        "kani": {
            "quick": ["c12_mono_f64_len6", "c12_mono_i32_len6"],
            "thorough": ["c12_mono_f64_len6", "c12_mono_f32_len6", "c12_mono_f64_len8", "c12_mono_i32_len6", "c12_mono_i64_len6", "c12_mono_i32_len8", "c12_mono_f64_strided_reversed"],
            "timeout_s": {"quick": 1200, "thorough": 6 * 3600},
            "functions": ["vector_extensions::VectorExtensions::monotonic_prop", "vector_extensions::MonotonicState::update", "vector_extensions::MonotonicState::finish", "vector_extensions::MonotonicState::short_circuit"],
            "bounds": {"quick": ["engine K: monotonic_prop on ArrayView1<f64> and <i32>, symbolic length 0..6, contents fully symbolic (NaN included), against the definition computed by straight loops over consecutive pairs"],
                       "thorough": ["engine K: f64 / f32 / i32 / i64 with symbolic length 0..6, f64 and i32 0..8, stride-2 and reversed stride -2 views of a larger symbolic array"]},
            "assumptions": [],
        },
        "explanation": "Engine K: the real monotonic_prop on f64 / f32 / i32 / i64 views of symbolic length with fully symbolic contents against the definition (class and strictness for NaN-free input, 'not Rising' for input "
                       "containing NaN). Engine S (mode O): every path of the state machine for lengths 0..10 (13) - i.e. every distinguishable sequence of consecutive-pair relations incl. unordered - with z3 proving the returned "
                       "class equals the SMT-written definition for all IEEE values.",
        "trusted_base": O_TRUST + K_TRUST,
        "technique": "Kani/CBMC proof harnesses with symbolic length and contents + exhaustive symbolic path exploration of the state machine with z3 QF_FP per path",
        "level_text": "Bounded model checking of the 6-state classifier: all bit patterns at lengths <= 6 (8) on four element types and strided / reversed views (engine K); all relation sequences up to length 10 (13) for f64 (engine S).",
        "level_note": "Trusted: Kani, CBMC, engine S, z3. Lengths above the bounds are outside (13 suffices to separate automata of <= 7 states, as the property notes).",
    },
    "C10": {
        "bin": "c10",
        "explanation": "Mode O decision-table checking of the real builders: structural cases (static / dynamic rank incl. too small, data length 0..min+1, axis length n-1/n/n+1 or default, boundary-array shapes, 2-D with x and y independent, "
                       "combinations) are enumerated while every axis element, data element and periodic end row is an unconstrained IEEE double. For every feasible path z3 proves Ok => valid (oracle written in SMT: lengths, "
                       "forall i x_i < x_i+1 bit-precisely, boundary shape, periodic rows fp.eq) and Err(kind) => the requirement class of that kind is violated; panic paths are findings.",
        "trusted_base": O_TRUST,
        "technique": "symbolic execution of the real validation chain + z3 QF_FP over all axis / data values (NaN, ties, swaps as models) against an SMT oracle; native replay",
        "level_text": "Bounded symbolic model checking of the full decision table (800 quick / 1120 thorough structural cases) with all values symbolic: exact acceptance, matching error kind, no panic from construction to build.",
        "level_note": "Trusted: engine S, z3 FP. Axis lengths <= 5. Found the constructor panic on dynamic data of too small rank (repaired by a fix: commit). monotonic_prop itself is also checked bit-precisely by C12 (engine K).",
    },
    "C09": {
        "bin": "c09",
        "explanation": "Mode O, configuration enumeration x symbolic values: inside one execution (decisions on identical conditions memoised) the real Interp1D / Interp2D is queried through interp_array, interp_array_into, "
                       "interp, interp_into and interp_scalar for query dimension types Ix0..Ix3 (thorough Ix4) and IxDyn of rank 0..2, empty query axes and empty trailing axes, data Ix1..Ix6 and IxDyn. Every data value is a "
                       "symbol, so interp_array(q)[i] = interp(q[i]), into = allocating, scalar = interp are decided for all values (term identity, else z3); the result shape is compared with query shape ++ trailing shape; "
                       "with symbolic axes and queries (batches <= 2) all entry points fail for exactly the same inputs.",
        "trusted_base": O_TRUST + ["harness/src/api.rs: macro-stamped forwarding to every (data dimension, query dimension) instantiation of the public API"],
        "technique": "symbolic execution of all entry points in one execution over enumerated dimension-type configurations; equality of results by term identity / z3 QF_FP+UF; order-abstraction pruning",
        "level_text": "Bounded symbolic model checking: the element/query correspondence and the agreement of the five entry points hold for every data value in each of ~120 (thorough ~400) dimension-type / shape configurations incl. the general path for dynamic 1-d queries, zero-length axes and rank > 6 results.",
        "level_note": "Trusted: engine S, the forwarding layer api.rs, z3. Configurations are enumerated (finite, stated), values are symbolic. Static query ranks above 4 and axis lengths above 3 are outside.",
    },
    "C13": {
        "bin": "c13",
        "explanation": "Mode O with symbolic data: for each role (data, x, y, query, output buffer) the array is stored in Fortran order, as an every-2nd-element window of a larger array filled with junk symbols, reversed, "
                       "with permuted storage axes or as an offset window, holding the same logical symbols as the all-C-order baseline; both are run inside one execution through every entry point and must give the same "
                       "outcome kind, shape and result terms (which also shows independence of the junk cells).",
        "trusted_base": O_TRUST + ["harness/src/layout.rs (unit-tested: every layout holds the same logical contents)", "harness/src/api.rs forwarding layer"],
        "technique": "symbolic execution over enumerated memory layouts with symbolic contents and junk cells; equality of outcomes and result terms (term identity / z3)",
        "level_text": "Bounded symbolic model checking of layout independence for all data values over 5 non-standard layouts x 5 roles x query ranks 0..3 and dynamic x 8 (thorough 11) data configurations x all entry points (1225 / 1680 scenarios).",
        "level_note": "Trusted: engine S, layout.rs, api.rs. Found the 'incompatible memory layout' panic of the general path (repaired by a fix: commit). Shared storage is covered by C19.",
    },
    "C14": {
        "bin": "c14",
        "explanation": "Mode O with symbolic data and poison: (a) the output buffer is a window into a larger array whose every cell (inside and outside) starts as a distinct poison symbol; after Ok every window cell is the "
                       "allocating variant's term (so it was overwritten) and every outside cell is still its own poison symbol; (b) every wrongly shaped buffer (each axis +-1, trailing / leading axes permuted, equal element "
                       "count with another shape, wrong dynamic rank) and x/y query arrays of different shapes must have no Ok path.",
        "trusted_base": O_TRUST + ["harness/src/layout.rs", "harness/src/api.rs forwarding layer"],
        "technique": "symbolic execution with poison symbols in and around the caller's buffer; overwritten / untouched / equal-to-allocating as term identities; enumeration of wrong shapes",
        "level_text": "Bounded symbolic model checking: exact-fill and rejection are decided for all data values over ~1340 (thorough ~1870) scenarios covering Interp1D and Interp2D, fast and general path, static and dynamic ranks, empty queries.",
        "level_note": "Trusted: engine S, layout.rs, api.rs. Found three genuine defects (general path accepted wrong shapes / rejected strided buffers; empty query on the fast path), all repaired by fix: commits. Wrong static ranks cannot be expressed (type system).",
    },
    "C08": {
        "bin": "c08",
        "explanation": "Mode O two-copy checking inside one execution: interpolator A and interpolator B share the axis, the queries and lane j's data and boundary entry while every other lane's data symbols and boundary kinds / "
                       "values differ; a third interpolator is built from lane j alone. For every feasible path (both builds Ok) lane j's outputs of A and B must be the same IEEE value (same recorded term, or a z3 query), and A's "
                       "lane j must agree with the lane-alone interpolator. Counterexamples are replayed natively (also with NaN / inf / huge poison in the other lanes).",
        "trusted_base": O_TRUST,
        "technique": "two-copy (non-interference) symbolic execution at a term-recording scalar + z3 QF_FP/UF; term identity where the implementation is lane-wise",
        "level_text": "Bounded symbolic model checking of lane independence for all IEEE data / boundary values / queries over trailing shapes incl. non-square, length-1 and length-0 axes, data ranks 2..4 (thorough ..6 and IxDyn), all strategies incl. per-lane Individual boundaries exercising the recursive dispatch.",
        "level_note": "Trusted: engine S, z3. Sizes bounded (n <= 4). The lane-alone comparison is required only up to rounding; bit-identity is what the current tree gives and is what a recorded-term identity shows. Assumes C11 for index-guess casts.",
    },
    "C20": {
        "bin": "c20",
        "explanation": "Mode O two-copy non-interference inside one execution: copy B shares with copy A the query, the two (four) bracketing axis values and data points of a chosen bracket (cell); every other data value is an "
                       "independent unconstrained IEEE value and every other axis value is independent subject to both axes being strictly increasing. With the query constrained to that bracket, both copies must return the same IEEE value "
                       "for every lane (term identity or z3). A counterexample is replayed natively, also with NaN / inf poison in the non-shared samples.",
        "trusted_base": O_TRUST,
        "technique": "two-copy (non-interference) symbolic execution + z3 QF_FP/UF over all axis values, data (incl. NaN/inf poison) and queries; native poison replay",
        "level_text": "Bounded symbolic model checking of 'depends only on the bracketing points' for all IEEE values: every bracket of Linear n = 3..5 (thorough 6) and every cell of 3x3 / 3x4 / 4x3 / 3x2 / 4x2 Bilinear grids (thorough + 4x4, 2x4), in range and extrapolated, 1-2 lanes. Catches hidden dependencies such as `+ 0*y_other` that exact-arithmetic reasoning and the tests cannot see.",
        "level_note": "Trusted: engine S, z3. Sizes bounded. Assumes C11 for index-guess casts. Uninterpreted arithmetic: equality of results is shown by congruence (same operations on same operands), which is sound for every IEEE implementation of the operations.",
    },
    "C15": {
        "bin": "c15",
        "explanation": "Relational checking in mode R: inside one execution two (three) real interpolators are built from related symbolic inputs - data scaled by a symbolic factor, sum of two data sets, axis and "
                       "queries shifted or scaled (derivative boundary values converted) - and queried in one batch at concrete abscissae (4 per spline piece, 2 per linear bracket, 2x2 per bilinear cell, plus points beyond "
                       "both ends). z3 proves each relation for ALL data values, boundary values and the symbolic scale factor; agreement at 4 points per cubic piece extends to every query by the identity theorem (not solver-discharged). "
                       "A solver counterexample of an axis-scale obligation that the exact replay in the model's ordinary units does not show (an absolute constant added to a length only matters in tiny units) is "
                       "confirmed by a native unit sweep: the real crate at f64 with the model's data in unit 1 against the units 2^-997 .. 2^960; this step only runs after the solver refuted the obligation.",
        "trusted_base": R_TRUST,
        "technique": "symbolic execution of 2-3 related interpolators in one execution + z3 (QF_NRA with symbolic scale factor) at concrete query abscissae; exact-rational replay via variable bindings, native f64 replay in power-of-two axis units for refuted axis-scale obligations",
        "level_text": "Bounded symbolic model checking of homogeneity, additivity, shift and scale invariance for all data / boundary values / data scale factors, all strategies and the boundary configurations of C03; axis shift and scale symbolic for Linear, from a stated constant list otherwise.",
        "level_note": "Trusted: engine S, z3. Real-number semantics. The bit-for-bit clause for exactly representable changes is NOT decided (stated outside). Concrete query abscissae + identity theorem instead of a symbolic query (symbolic-query relational obligations come back unknown, measured).",
    },
    "C16": {
        "bin": "c16",
        "explanation": "Mode R: the data handed to the real builder are TERMS p(x_i) of a polynomial with symbolic coefficients (per lane), boundary derivative values are p'(x_end) / p''(x_end); for a symbolic query in every "
                       "interval and on both sides of the range z3 proves out = p(q) as a polynomial identity in the coefficients and q. Linear + affine (symbolic axis), Bilinear + a+bx+cy+dxy, NotAKnot + cubic (n>=4) / quadratic (n=3), "
                       "Natural + affine, Clamped + constant, derivative / not-a-knot Mixed pairs + cubic.",
        "trusted_base": R_TRUST,
        "technique": "symbolic execution with polynomial-valued data terms + z3 (QF_NRA polynomial identities in coefficients and query); exact-rational replay via variable bindings",
        "level_text": "Bounded symbolic model checking: reproduction is decided for every coefficient vector and every real query (in range and extrapolated) on the concrete axis family (n <= 6 quick / 10 thorough), for every boundary pair whose conditions the polynomial satisfies, lanes holding different polynomials.",
        "level_note": "Trusted: engine S, z3. Real-number semantics; concrete axes for spline and bilinear; n bounded. Detects the (repaired) right-NotAKnot defect when the fix is reverted.",
    },
    "C07": {
        "bin": "c07",
        "explanation": "Periodic boundary with extrapolation, mode R on the concrete axis family with symbolic periodic data: (1) the specification's wrap w(q) = x0 + rem_euclid(q - x0, P) maps x + kP to x for an "
                       "UNBOUNDED integer k (cvc5, mixed integer/real arithmetic); (2) on a grid of concrete abscissae (every knot, 3 interior points per interval, k in {-3,-1,1,2}) S_ext(x + kP) = S(x) is decided "
                       "for all data values, and for a symbolic out-of-range query the extrapolating interpolator returns the same recorded term as a non-extrapolating one queried at w(q) inside the same execution "
                       "(same hash-consed node, or a solver query); (3) periodic images of both range ends evaluate to y_0. Mode O: no non-NaN query is rejected or panics. "
                       "Layer F (IEEE path witnesses): on concrete origin-0 axes in units 2^0, 2^-700, 2^600 every feasible path of the real code x 8 query strata (near / 2^60 / 2^400 periods away, out of range by < 2^-300 periods) is decided "
                       "feasible or not with IEEE-754 semantics for + - * / (z3 QF_FP bit-precise), and the model is run natively against the non-extrapolating spline at the independently wrapped argument (integer arithmetic on the binary expansions).",
        "trusted_base": R_TRUST + ["cvc5 1.0 (primary solver for the integer/real wrap obligations; z3 does not decide them)"],
        "technique": "symbolic execution at a term-recording scalar + cvc5/z3: unbounded-integer wrap arithmetic (QF_LIRA), term identity / QF_NRA for evaluation at the wrapped argument, QF_LRA on a concrete query grid for all data; bit-precise QF_FP path-feasibility queries whose models (rounding-only paths such as absorption or underflow included) are replayed natively against an integer-arithmetic wrap oracle",
        "level_text": "Bounded symbolic model checking: periodicity is decided for every integer period count in the wrap arithmetic, for all data values on the concrete query grid, and for all real queries whenever the implementation wraps the way the specification does (term identity). Symbolic-query obligations the solvers leave undecided are reported inconclusive, never passed.",
        "level_note": "Trusted: engine S, cvc5, z3. Real-number semantics in the algebraic layers; the floating-point side is covered by one solver-chosen witness per path x magnitude stratum (layer F), not for all values. Concrete axis family, n <= 5 quick / 7 thorough. Infinite queries excluded (the property speaks of finite queries).",
    },
    "C05": {
        "bin": "c05",
        "engine": "S+K",
        "kani": {
            "quick": ["c05_in_range_f64", "c05_in_range_f32", "c05_in_xy_range_f64"],
            "thorough": ["c05_in_range_f64", "c05_in_range_f32", "c05_in_xy_range_f64"],
            "timeout_s": {"quick": 900, "thorough": 1800},
            "functions": ["interp1d::Interp1D::is_in_range", "interp2d::Interp2D::is_in_x_range", "interp2d::Interp2D::is_in_y_range", "interp1d::Interp1D::index_point", "interp2d::Interp2D::index_point"],
            "bounds": ["engine K: is_in_range / is_in_x_range / is_in_y_range / index_point through new_unchecked over views, f64 (3 and 2x3 points) and f32 (2 points), all bit patterns of axis and query"],
            "assumptions": [],
        },
        "explanation": "Bounded symbolic checking in mode O of every non-extrapolating strategy (Linear, five CubicSpline boundary selections incl. Periodic, Bilinear) behind every "
                       "entry point: axis values are solver variables under x_i < x_i+1, data and every query element are unconstrained IEEE doubles. For each feasible path z3 "
                       "(FloatingPoint theory, bit-precise comparisons) proves Ok => every element in the closed range and OutOfBounds => some element outside (NaN counts as outside); "
                       "panic paths must be infeasible or are replayed natively.",
        "trusted_base": O_TRUST,
        "technique": "symbolic execution of the real generic code at a term-recording scalar + z3 QF_FP (IEEE comparisons bit-precise, arithmetic uninterpreted) over all axis values, data and queries incl. NaN/inf",
        "level_text": "Bounded symbolic model checking over ALL IEEE doubles for axis, data and queries (NaN, +-inf, +-0 and the floats adjacent to the range ends are ordinary values of the sort), all strategies, 8+ entry-point shapes incl. the rank-1 fast path and the general path, batches of 2, 3 and 2x2. Right level: the property is purely about comparisons and control flow, which the solver decides bit-precisely for every value.",
        "level_note": "Trusted: engine S, z3 FP theory. Assumes C11 (engine K) for the cast of the index guess on non-NaN in-range lookups (cut branches are counted in the evidence). n <= 4 quick / 5 thorough.",
    },
    "C06": {
        "bin": "c06",
        "explanation": "Layer A (mode R): with extrapolate(true) and an unconstrained real query the Linear result satisfies the cross-multiplied line equation of the border bracket (symbolic axis), "
                       "the Bilinear result the blend equation of the border cell (concrete axes), and the CubicSpline term left/right of the range is the first/last in-range piece as a polynomial in q. "
                       "Layer D (mode O): no non-NaN query is rejected or panics, and in-range results are the same IEEE value as those of a non-extrapolating twin built from the same symbols inside one execution.",
        "trusted_base": R_TRUST + O_TRUST[1:],
        "technique": "symbolic execution at a term-recording scalar + z3: QF_NRA for the end-piece identities, QF_FP (uninterpreted arithmetic) for outcomes and in-range bit-identity",
        "level_text": "Bounded symbolic model checking of both the algebra of the continuation (all data, all queries on either side, 2-D outside in x, y or both) and the discrete behaviour (never rejected, in-range bit-identity) for all values within the size bounds.",
        "level_note": "Trusted: engine S, z3. Real-number semantics for values; overflow far outside not covered; NaN queries with extrapolation panic by design and are excluded (the property speaks of finite queries). Assumes C11 for index-guess casts.",
    },
    "C01": {
        "bin": "c01",
        "explanation": "Bounded symbolic checking of the real Linear strategy behind every 1-D entry point, instantiated at the term-recording scalar in mode R "
                       "with a FULLY SYMBOLIC strictly increasing axis (and the default index axis): for every feasible path and every bracket k, z3 proves for all "
                       "axis values, data values and in-range queries that q in [x_k, x_k+1] implies (out - y_k)(x_k+1 - x_k) = (y_k+1 - y_k)(q - x_k), plus the knot "
                       "and bracket-bounds corollaries; no in-range query may end in an error or panic path.",
        "trusted_base": R_TRUST,
        "technique": "symbolic execution of the real generic code at a term-recording scalar + z3 (QF_NRA), symbolic axis, obligations per bracket with the bracket as premise",
        "level_text": "Bounded symbolic model checking over ALL strictly increasing real axes, data and in-range queries for n <= 4 (quick) / 6 (thorough), trailing shapes (), (2), (2,2), three entry points. The oracle is cross-multiplied and does not copy the implementation's formula. Right level: wrong-neighbour / wrong-denominator / lane mix-up defects are algebraic and the solver covers every spacing at once, which the unit-spaced tests cannot.",
        "level_note": "Trusted: engine S, z3. Real-number semantics (the 'few ulps' clause is not decided). Bracket selection on IEEE inputs is C11 (Kani) and C20 (mode O). n bounded.",
    },
    "C04": {
        "bin": "c04",
        "explanation": "Bounded symbolic checking of the real Bilinear strategy (mode R): concrete rational x/y axes from independent families (or default index axes), "
                       "symbolic grid data and query; per feasible path, lane and cell z3 proves the cross-multiplied bilinear blend equation, node reproduction, "
                       "reduction to 1-D linear interpolation on grid lines, and equality with the interpolator built from transposed data / swapped axes / swapped query.",
        "trusted_base": R_TRUST,
        "technique": "symbolic execution of the real generic code at a term-recording scalar + z3 (QF_NRA) over all grid data and queries; concrete rational axes; obligations per cell with the cell as premise",
        "level_text": "Bounded symbolic model checking for all grid data and in-range queries on grids 2x2..3x3 (thorough ..4x3, 3x5), non-square grids and distinct symbols make x/y and neighbour swaps visible; transposition symmetry checked inside the same execution.",
        "level_note": "Trusted: engine S, z3. Real-number semantics. Axes concrete (symbolic axes stall the solver, measured); grid sizes bounded. Cell selection on IEEE inputs: C11; dependence on four corners only: C20.",
    },
    "C02": {
        "bin": "c02",
        "explanation": "Bounded symbolic checking of the real CubicSpline builder and evaluator instantiated at the term-recording scalar (mode R, exact "
                       "real algebra): for every configuration (concrete rational axis, boundary selection, trailing shape) the polynomial piece returned "
                       "for a query inside each interval is extracted by path exploration, and z3 proves for ALL data values, boundary derivative values and "
                       "queries that it interpolates both knots, has vanishing 4th derivative, and joins its neighbour with equal 1st and 2nd derivatives.",
        "trusted_base": R_TRUST,
        "technique": "symbolic execution of the real generic code at a term-recording scalar + z3 (QF_NRA/LRA) over all data, boundary values and queries; concrete rational axis family",
        "level_text": "Bounded symbolic model checking: for each of several hundred configurations (axis from a stated concrete family, n <= 7 quick / 12 thorough, boundary selection, trailing shape) z3 decides every interpolation / cubic / C1 / C2 obligation for all real data values, boundary values and queries. This is the right level because the defects of this code are algebraic (wrong interval, wrong power of h) and invisible on the unit-spaced axes of the tests; the solver quantifies over all data at once.",
        "level_note": "Trusted: engine S (Sym scalar, path explorer, SMT emission, diff/subst helpers), z3. Assumes float operations are exact real operations (no rounding claim); axes are concrete members of the stated family, not solver variables; n bounded.",
    },
    "C03": {
        "bin": "c03",
        "explanation": "As C02, with the boundary obligations of the selected condition at each end of each lane (Natural S''=0, Clamped S'=0, FirstDeriv(v) "
                       "S'=v, SecondDeriv(v) S''=v, NotAKnot equal third derivatives of the two end pieces, n=3 parabola, Periodic equal S' and S'' at both "
                       "ends), decided by z3 for all data and derivative values; counterexamples are replayed against the real crate in exact rational "
                       "arithmetic (divided differences over 5 evaluations per piece) and natively in f64.",
        "trusted_base": R_TRUST,
        "technique": "symbolic execution of the real generic code at a term-recording scalar + z3 over all data and boundary derivative values; exact-rational replay of counterexamples",
        "level_text": "Bounded symbolic model checking: the boundary equations of every selected condition (all 25 ordered Mixed pairs, whole-data-set kinds, Periodic, per-lane assignments, n = 3 special cases) are decided by z3 for all data and derivative values on the concrete axis family. Together with C02 these are the defining equations of the spline, so agreement with the mathematical spline follows without a reference implementation.",
        "level_note": "Trusted: engine S, z3. Real-number semantics (no rounding claim); concrete axis family; n bounded (quick 3..7, thorough 3..12). A genuine defect found by this check (right NotAKnot row) was repaired by a fix: commit, see known_findings.json.",
    },
}
