#!/usr/bin/env python3
"""Evaluate a seeded change: confirm it (compiles, existing suite green, demonstration fails with / passes
without it) in a scratch worktree, then apply it to /repo, run the given checks (evidence and replays redirected to
a scratch directory), and undo it straight afterwards.

  lib/try_seed.py --patch P --demo tests/demo_x.rs --worktree /tmp/wt --checks C01,C20 [--tier quick] [--skip-confirm]
Prints one JSON object.
"""
import argparse
import json
import os
import re
import subprocess
import sys
import time

ROOT = os.path.dirname(os.path.dirname(os.path.abspath(__file__)))
REPO = "/repo"


def sh(cmd, cwd=None, timeout=3600, env=None):
    e = dict(os.environ)
    e["CARGO_NET_OFFLINE"] = "true"
    if env:
        e.update(env)
    p = subprocess.run(cmd, cwd=cwd, shell=isinstance(cmd, str), stdout=subprocess.PIPE, stderr=subprocess.STDOUT, text=True, timeout=timeout, env=e)
    return p.returncode, p.stdout


def confirm(patch, demo, wt):
    out = {}
    rc, o = sh("git checkout -- src Cargo.toml 2>/dev/null; git status --short src", cwd=wt)
    rc, o = sh(["git", "apply", "--check", patch], cwd=wt)
    if rc != 0:
        return {"applies": False, "msg": o[-500:]}
    sh(["git", "apply", patch], cwd=wt)
    name = os.path.splitext(os.path.basename(demo))[0]
    # existing suite (everything except the demo files) with the change
    rc, o = sh("cargo test --offline --lib 2>&1 | grep -E '^test result|FAILED|^error'; cargo test --offline --doc 2>&1 | grep -E '^test result|FAILED|^error'; for t in cubic_spline_strat interp1d interp2d; do cargo test --offline --test $t 2>&1 | grep -E '^test result|FAILED|^error' ; done", cwd=wt)
    res = re.findall(r"test result: (\w+)\. (\d+) passed; (\d+) failed", o)
    out["suite_with_change"] = {"results": res, "green": len(res) == 5 and all(r[0] == "ok" for r in res) and "error" not in o}
    out["suite_tests_passed"] = sum(int(r[1]) for r in res)
    rc, o = sh(f"cargo test --offline --test {name} 2>&1 | tail -30", cwd=wt)
    out["demo_fails_with_change"] = "test result: FAILED" in o or "panicked" in o or "error: test failed" in o
    sh("git checkout -- src Cargo.toml", cwd=wt)
    rc, o = sh(f"cargo test --offline --test {name} 2>&1 | tail -15", cwd=wt)
    out["demo_passes_without_change"] = "test result: ok" in o and "FAILED" not in o
    out["applies"] = True
    return out


def main():
    ap = argparse.ArgumentParser()
    ap.add_argument("--patch", required=True)
    ap.add_argument("--demo")
    ap.add_argument("--worktree")
    ap.add_argument("--checks", required=True)
    ap.add_argument("--tier", default="quick")
    ap.add_argument("--skip-confirm", action="store_true")
    a = ap.parse_args()
    result = {"patch": a.patch, "checks": {}}
    if not a.skip_confirm and a.demo and a.worktree:
        result["confirmation"] = confirm(os.path.abspath(a.patch), a.demo, a.worktree)
    rc, o = sh("git status --short -- src Cargo.toml", cwd=REPO)
    if o.strip():
        print(json.dumps({"error": "/repo is not clean", "status": o}))
        return 2
    rc, o = sh(["git", "apply", os.path.abspath(a.patch)], cwd=REPO)
    if rc != 0:
        print(json.dumps({"error": "patch does not apply to /repo", "msg": o[-400:]}))
        return 2
    scratch = f"/tmp/verif-seed-{os.getpid()}"
    try:
        for pid in a.checks.split(","):
            t0 = time.time()
            rc, o = sh([os.path.join(ROOT, "check"), pid, a.tier], cwd=ROOT, timeout=7200, env={"VERIF_EVIDENCE_DIR": scratch + "/evidence", "VERIF_REPLAY_DIR": scratch + "/replays", "VERIF_SKIP_MIR": "1"})
            vio = [l for l in o.splitlines() if l.startswith("VIOLATION")]
            keys = []
            for l in vio:
                m = re.search(r"replay=(\S+)", l)
                if m and os.path.exists(m.group(1)):
                    try:
                        j = json.load(open(m.group(1)))
                        keys.append({"key": j.get("key"), "summary": j.get("summary", "")[:200]})
                    except Exception:
                        pass
            tail = [l for l in o.splitlines() if l.startswith("[check]") or l.startswith("[C")][-6:]
            result["checks"][pid] = {"exit": rc, "violations": keys, "seconds": round(time.time() - t0, 1), "log_tail": tail}
    finally:
        sh("git checkout -- .", cwd=REPO)
        sh(f"rm -rf {scratch}")
    rc, o = sh("git status --short -- src Cargo.toml", cwd=REPO)
    result["repo_clean_after"] = not o.strip()
    print(json.dumps(result, indent=1))
    return 0


if __name__ == "__main__":
    sys.exit(main())
