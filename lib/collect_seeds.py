#!/usr/bin/env python3
"""Collect confirmed seeded changes from the sub-agents' scratch worktrees into /verif/seeded/<id>/
(patch.diff, the demonstration, meta.json) using the results written by lib/try_seed.py."""
import glob
import json
import os
import re
import shutil
import sys

ROOT = os.path.dirname(os.path.dirname(os.path.abspath(__file__)))
RES = sys.argv[1] if len(sys.argv) > 1 else "/tmp/seed_results"
WT_PREFIX = sys.argv[2] if len(sys.argv) > 2 else "/tmp/wt_"
ID_PREFIX = sys.argv[3] if len(sys.argv) > 3 else ""


def needs(notes, ab):
    # the agent's own description of what the change needs in order to manifest
    m = re.search(r"(?is)change " + ab + r"\b(.*?)(?=\n#+ .*change [ab]\b|\Z)", notes)
    return (m.group(1).strip() if m else notes)[:2500]


def main():
    rows = []
    for f in sorted(glob.glob(os.path.join(RES, "C*_[ab].json"))):
        name = os.path.basename(f)[:-5]
        pid, ab = name.split("_")
        try:
            j = json.load(open(f))
        except Exception:
            continue
        c = j.get("confirmation", {})
        ok = c.get("applies") and c.get("suite_with_change", {}).get("green") and c.get("demo_fails_with_change") and c.get("demo_passes_without_change")
        wt = f"{WT_PREFIX}{pid}"
        if not ok:
            rows.append((name, "NOT CONFIRMED", c))
            continue
        d = os.path.join(ROOT, "seeded", f"{ID_PREFIX}{pid}-{ab}")
        os.makedirs(d, exist_ok=True)
        shutil.copyfile(os.path.join(wt, f"mutant_{ab}.patch"), os.path.join(d, "patch.diff"))
        shutil.copyfile(os.path.join(wt, "tests", f"demo_{ab}.rs"), os.path.join(d, f"demo_{ab}.rs"))
        notes = open(os.path.join(wt, "notes.md"), errors="replace").read() if os.path.exists(os.path.join(wt, "notes.md")) else ""
        caught = {k: v for k, v in j.get("checks", {}).items()}
        meta = {
            "id": f"{ID_PREFIX}{pid}-{ab}",
            "breaks_property": pid,
            "source": "independent sub-agent given only the property text and a scratch worktree of /repo",
            "needs_in_order_to_manifest": needs(notes, ab.upper()),
            "confirmed_by_me": {"existing_suite_green_with_change": True, "suite_tests_passed": c.get("suite_tests_passed"), "demo_fails_with_change": True, "demo_passes_without_change": True,
                                 "how": "scratch worktree: git apply patch; cargo test --offline (lib, doc, tests/cubic_spline_strat, interp1d, interp2d); cargo test --test demo; git checkout -- src; cargo test --test demo"},
            "checks_run_against_it": {k: {"exit": v["exit"], "violation_keys": [x["key"] for x in v["violations"]], "seconds": v["seconds"]} for k, v in caught.items()},
            "caught_by": [k for k, v in caught.items() if v["exit"] == 1],
            "inconclusive_in": [k for k, v in caught.items() if v["exit"] == 2],
            "missed_by": [k for k, v in caught.items() if v["exit"] == 0],
            "checks_before_this_rounds_strengthening": j.get("checks_before_strengthening", {}),
            "how_run": "git -C /repo apply seeded/<id>/patch.diff; ./check <ID> quick; git -C /repo checkout -- .   (lib/try_seed.py does exactly this with evidence redirected)",
        }
        json.dump(meta, open(os.path.join(d, "meta.json"), "w"), indent=1)
        rows.append((name, "kept", meta["caught_by"], meta["inconclusive_in"], meta["missed_by"]))
    for r in rows:
        print(*r)


if __name__ == "__main__":
    main()
