#!/usr/bin/env python3
"""Regenerate /verif/MANIFEST.json from lib/props.py (single source of truth for what is claimed)."""
import json
import os
import sys

ROOT = os.path.dirname(os.path.dirname(os.path.abspath(__file__)))
sys.path.insert(0, os.path.join(ROOT, "lib"))
import props  # noqa: E402

ALL = [f"C{i:02d}" for i in range(1, 21)]


def main():
    checks = []
    for pid in ALL:
        sp = props.PROPS.get(pid)
        if not sp or sp.get("not_applicable"):
            continue
        c = {
            "property_id": pid,
            "quick_cmd": f"./check {pid} quick",
            "thorough_cmd": f"./check {pid} thorough",
            "evidence_file": f"/verif/evidence/{pid}.json",
            "replay_cmd_template": f"./check {pid} --replay {{path}}",
            "engine": sp.get("engine", "S"),
            "level_claimed": {"category": "model_checking", "text": sp["level_text"], "design_ref": sp.get("design_ref", f"DESIGN.md section 5, {pid}")},
            "level_note": sp["level_note"],
            "technique": sp["technique"],
        }
        checks.append(c)
    na = []
    for pid in ALL:
        sp = props.PROPS.get(pid)
        if not sp:
            na.append({"property_id": pid, "reason": "check not built yet in this session (planned, see DESIGN.md section 5)"})
        elif sp.get("not_applicable"):
            na.append({"property_id": pid, "reason": sp["not_applicable"]})
    man = {
        "version": 1,
        "setup_cmd": "./check --setup",
        "hooks": props.HOOKS,
        "engines": [
            {"name": "S", "path": "/verif/harness", "serves_properties": [c["property_id"] for c in checks if "S" in c["engine"]],
             "kind_free_text": "symbolic execution of the real generic crate instantiated at a term-recording scalar (Sym); DFS over comparison / cast decisions with solver pruning; obligations as SMT-LIB queries to z3 in mode R (reals, exact algebra) or mode O (IEEE FloatingPoint sort, uninterpreted arithmetic); counterexamples replayed against the real crate"},
            {"name": "K", "path": "/verif/kani", "serves_properties": [c["property_id"] for c in checks if "K" in c["engine"]],
             "kind_free_text": "Kani 0.68 / CBMC 6.11 proof harnesses over kani::any() inputs on the f64/f32/i32/i64 monomorphs of the leaf routines, with unwinding assertions"},
        ],
        "checks": checks,
        "not_applicable": na,
        "notes": "Exit 2 of a check means inconclusive / machinery error (solver unknown, harness no longer builds against /repo, counterexample that does not reproduce); it is never a pass. VERIF_SEED selects the seed-generated axes. All checks rebuild the harness against /repo's working tree with RUSTFLAGS=--cfg ndarray_interp_verif.",
    }
    with open(os.path.join(ROOT, "MANIFEST.json"), "w") as fh:
        json.dump(man, fh, indent=1)
        fh.write("\n")
    print(f"MANIFEST.json: {len(checks)} checks, {len(na)} not applicable")


if __name__ == "__main__":
    main()
