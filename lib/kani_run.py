"""Engine K: run Kani proof harnesses of /verif/kani against /repo's working tree and parse the results."""
import json
import os
import re
import resource
import shutil
import subprocess
import time

GUARD = "ndarray_interp_verif"


def _env():
    e = dict(os.environ)
    e["CARGO_NET_OFFLINE"] = "true"
    # engine K verifies the code as users compile it: the verification hook (a string comparison of type names inside
    # cast_unchecked) stays off, it would only add memcmp loops to unwind
    e.pop("RUSTFLAGS", None)
    e.pop("RUSTUP_TOOLCHAIN", None)
    return e


def _limits():
    # per-process address-space limit: a CBMC run that needs more is reported as inconclusive, not awaited
    lim = int(os.environ.get("VERIF_KANI_MEM_GB", "24")) * (1 << 30)
    resource.setrlimit(resource.RLIMIT_AS, (lim, lim))


def setup(root, repo, log):
    kdir = os.path.join(root, "kani")
    shutil.copyfile(os.path.join(repo, "Cargo.lock"), os.path.join(kdir, "Cargo.lock"))
    # compile the harness crate once (no harness selected that takes long)
    p = subprocess.run(["cargo", "kani", "--harness", "c05_in_range_f32", "--output-format", "terse"], cwd=kdir, env=_env(), stdout=subprocess.PIPE, stderr=subprocess.STDOUT, text=True)
    log(f"kani setup build: exit {p.returncode}")
    return p.returncode


def parse(text, wanted):
    """per-harness results from `cargo kani -j N --output-format terse` output"""
    thread_of = {}
    res = {}
    cur_thread = None
    block = []
    blocks = []
    for line in text.splitlines():
        m = re.match(r"Thread (\d+): Checking harness (\S+?)\.\.\.", line)
        if m:
            thread_of[m.group(1)] = m.group(2)
            continue
        m = re.match(r"Thread (\d+): ?$", line)
        if m:
            if cur_thread is not None:
                blocks.append((cur_thread, block))
            cur_thread, block = m.group(1), []
            continue
        m = re.match(r"Checking harness (\S+?)\.\.\.", line)
        if m:  # sequential mode (-j 1)
            if cur_thread is not None:
                blocks.append((cur_thread, block))
            thread_of["seq" + m.group(1)] = m.group(1)
            cur_thread, block = "seq" + m.group(1), []
            continue
        if cur_thread is not None:
            block.append(line)
    if cur_thread is not None:
        blocks.append((cur_thread, block))
    # a thread runs several harnesses one after the other: pair blocks with the announcements in order
    per_thread_names = {}
    for line in text.splitlines():
        m = re.match(r"Thread (\d+): Checking harness (\S+?)\.\.\.", line)
        if m:
            per_thread_names.setdefault(m.group(1), []).append(m.group(2))
    per_thread_idx = {}
    for th, body in blocks:
        if th.startswith("seq"):
            name = thread_of[th]
        else:
            i = per_thread_idx.get(th, 0)
            names = per_thread_names.get(th, [])
            if i >= len(names):
                continue
            name = names[i]
            per_thread_idx[th] = i + 1
        b = "\n".join(body)
        r = {"harness": name.split("::")[-1]}
        m = re.search(r"\*\* (\d+) of (\d+) failed", b)
        if m:
            r["failed"], r["checks"] = int(m.group(1)), int(m.group(2))
        m = re.search(r"\*\* (\d+) of (\d+) cover properties satisfied", b)
        if m:
            r["covers_sat"], r["covers"] = int(m.group(1)), int(m.group(2))
        m = re.search(r"Verification Time: ([\d.]+)s", b)
        if m:
            r["time_s"] = float(m.group(1))
        if "VERIFICATION:- SUCCESSFUL" in b:
            r["status"] = "SUCCESSFUL"
        elif "VERIFICATION:- FAILED" in b:
            r["status"] = "FAILED"
            r["failed_checks"] = [l.strip() for l in body if l.strip().startswith("Failed Checks:")][:20]
        else:
            r["status"] = "UNKNOWN"
        if "unwinding assertion" in b and r.get("status") == "FAILED":
            r["unwinding_failure"] = True
        res[r["harness"]] = r
    for h in wanted:
        res.setdefault(h, {"harness": h, "status": "MISSING"})
    return res


def playback(root, repo, harness, log, kdir=None):
    """concrete playback of a failing harness: Kani prints a unit test per failed check (and per satisfied cover
    property); the tests for FAILED checks are inserted into a scratch copy of the harness crate (inside the
    harness module - `inplace` mode cannot be used because the harnesses are macro-generated) and run natively
    in the dev and release profiles"""
    scratch = f"/tmp/verif-kani-playback-{os.getpid()}"
    try:
        shutil.copytree(kdir or os.path.join(root, "kani"), scratch, ignore=shutil.ignore_patterns("target"))
        e = _env()
        p = subprocess.run(["cargo", "kani", "--harness", harness, "-Z", "concrete-playback", "--concrete-playback=print", "--output-format", "terse"], cwd=scratch, env=e, stdout=subprocess.PIPE, stderr=subprocess.STDOUT, text=True, timeout=3600)
        blocks = re.findall(r"Concrete playback unit test for `[^`]*`:\n```\n(.*?)\n```", p.stdout, re.S)
        failing = []
        for b in blocks:
            kind = re.search(r"/// Check for `(\w+)`", b)
            name = re.search(r"fn (kani_concrete_playback_\w+)\(\)", b)
            if name and kind and kind.group(1) != "cover":
                failing.append((b, name.group(1)))
        if not failing:
            return None, p.stdout[-2000:]
        libp = os.path.join(scratch, "src", "lib.rs")
        src = open(libp).read().rstrip()
        assert src.endswith("}")
        src = src[:-1] + "\n".join(b for b, _ in failing[:4]) + "\n}\n"
        open(libp, "w").write(src)
        out = {"dev": False, "release": False, "tests": [n for _, n in failing[:4]]}
        for _, name in failing[:4]:
            for profile in ([], ["--release"]):
                q = subprocess.run(["cargo", "kani", "playback", "-Z", "concrete-playback"] + profile + ["--", name], cwd=scratch, env=e, stdout=subprocess.PIPE, stderr=subprocess.STDOUT, text=True, timeout=1800)
                if "test result: FAILED" in q.stdout or "panicked at" in q.stdout:
                    out["release" if profile else "dev"] = True
                elif "could not compile" in q.stdout:
                    out["error"] = q.stdout[-1500:]
        return out, "\n\n".join(b for b, _ in failing)[:6000]
    except Exception as ex:
        log(f"playback failed: {ex}")
        return None, str(ex)
    finally:
        shutil.rmtree(scratch, ignore_errors=True)


def run(root, repo, pid, tier, groups, log):
    harnesses = list(groups.get(tier) or groups.get("quick") or [])
    if not harnesses:
        return {}, 0
    kdir = os.path.join(root, "kani")
    shutil.copyfile(os.path.join(repo, "Cargo.lock"), os.path.join(kdir, "Cargo.lock"))
    limit = int(os.environ.get("VERIF_KANI_TIMEOUT", groups.get("timeout_s", {}).get(tier, 1500 if tier == "quick" else 6 * 3600)))
    jobs = min(len(harnesses), int(os.environ.get("VERIF_THREADS", "16")))
    cmd = ["cargo", "kani", "-j", str(jobs), "--output-format", "terse"]
    if groups.get("stubbing"):
        cmd += ["-Z", "stubbing"]
    for h in harnesses:
        cmd += ["--harness", h]
    t0 = time.time()
    os.makedirs(os.path.join(root, "work"), exist_ok=True)
    logf = os.path.join(root, "work", f"{pid}.K.log")
    status = 0
    timed_out = False
    with open(logf, "w") as fh:
        try:
            p = subprocess.Popen(cmd, cwd=kdir, env=_env(), stdout=fh, stderr=subprocess.STDOUT, preexec_fn=_limits, start_new_session=True)
            p.wait(timeout=limit)
        except subprocess.TimeoutExpired:
            timed_out = True
            try:
                os.killpg(p.pid, 9)
            except Exception:
                p.kill()
    text = open(logf, errors="replace").read()
    res = parse(text, harnesses)
    K = {"engine": "Kani 0.68.0 / CBMC 6.11.0 (cadical)", "harnesses": len(harnesses), "harnesses_ok": 0, "checks": 0, "checks_ok": 0, "samples": [], "findings": [], "inconclusive": [], "errors": [], "results": [], "wall_s": round(time.time() - t0, 1), "functions": groups.get("functions", []), "bounds": groups.get("bounds", {}).get(tier, []) if isinstance(groups.get("bounds"), dict) else groups.get("bounds", []), "assumptions": groups.get("assumptions", []), "replays": 0, "command": " ".join(cmd)}
    if "error: could not compile" in text or "error[E" in text:
        K["errors"].append("the Kani harness crate does not compile against /repo (API change?)")
        log(text[-3000:])
        return K, 2
    for h in harnesses:
        r = res[h]
        K["results"].append(r)
        K["checks"] += r.get("checks", 0)
        st = r.get("status")
        if st == "SUCCESSFUL" and r.get("covers_sat", 0) == r.get("covers", 0):
            K["harnesses_ok"] += 1
            K["checks_ok"] += r.get("checks", 0)
            if len(K["samples"]) < 6:
                K["samples"].append({"harness": h, "status": st, "cbmc_checks": r.get("checks"), "cover_properties": f"{r.get('covers_sat', 0)}/{r.get('covers', 0)}", "time_s": r.get("time_s")})
        elif st == "SUCCESSFUL":
            K["errors"].append(f"{h}: verified but {r.get('covers', 0) - r.get('covers_sat', 0)} cover properties unsatisfied (vacuous harness)")
            status = max(status, 2)
        elif st == "FAILED":
            fc = " ".join(r.get("failed_checks", []))
            only_nan = fc and all(("NaN on" in c) for c in r.get("failed_checks", []))
            if r.get("unwinding_failure"):
                K["errors"].append(f"{h}: unwinding assertion failed (bound too small) - inconclusive")
                status = max(status, 2)
            elif only_nan:
                K["results"][-1]["note"] = "only CBMC NaN-propagation checks failed (not property violations)"
                K["harnesses_ok"] += 1
            else:
                K["checks_ok"] += r.get("checks", 0) - r.get("failed", 0)
                pb, gen = playback(root, repo, h, log)
                K["replays"] += 1
                reproduced = None if pb is None else (pb.get("dev") or pb.get("release"))
                K["findings"].append({"key": f"{pid}:kani:{h}", "summary": f"Kani harness {h} failed: {fc[:300]}", "replay": {"harness": h, "failed_checks": r.get("failed_checks", []), "concrete_playback": pb, "generated_test": gen, "rerun": f"cd /verif/kani && cargo kani --harness {h}"}, "reproduced": reproduced})
        else:
            K["inconclusive"].append(f"{h}: no verdict ({'overall time limit' if timed_out else st})")
            status = max(status, 2)
    return K, status
