"""Engine K: run Kani harnesses (filled in with the Kani harness crate)."""


def setup(root, repo, log):
    return 0


def run(root, repo, pid, tier, groups, log):
    return {}, 0
