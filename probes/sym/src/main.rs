mod sym;
use ndarray::*;
use ndarray_interp::interp1d::cubic_spline::*;
use ndarray_interp::interp1d::*;
use std::collections::HashMap;
use sym::*;

fn explore<R>(max_index: usize, mut f: impl FnMut() -> R) -> Vec<(Vec<(Cond, bool)>, std::thread::Result<R>)> {
    let mut out = vec![];
    let mut prefix = Some(vec![]);
    std::panic::set_hook(Box::new(|_| {}));
    while let Some(p) = prefix {
        CTX.with(|c| { let mut c = c.borrow_mut(); c.max_index = max_index; c.reset_path(p); });
        let r = std::panic::catch_unwind(std::panic::AssertUnwindSafe(|| f()));
        let pc = CTX.with(|c| c.borrow().pc.clone());
        out.push((pc, r));
        prefix = CTX.with(|c| c.borrow().next_prefix());
    }
    out
}

fn main() {
    let args: Vec<String> = std::env::args().collect();
    let symbolic_axis = args.get(1).map(|s| s == "symaxis").unwrap_or(false);
    let n: usize = args.get(2).and_then(|s| s.parse().ok()).unwrap_or(4);
    let conc = [0i128, 1, 3, 7, 8, 12, 13];
    let xs: Vec<Sym> = (0..n).map(|i| if symbolic_axis { Sym::var(&format!("x{i}")) } else { Sym::rat(conc[i], 1) }).collect();
    let cs: Vec<Sym> = (0..4).map(|i| Sym::var(&format!("c{i}"))).collect();
    let p = |t: Sym| cs[0] + cs[1] * t + cs[2] * t * t + cs[3] * t * t * t;
    let q = Sym::var("q");
    let res = explore(n - 1, || {
        let x = Array1::from(xs.clone());
        let y = x.mapv(p);
        let it = Interp1DBuilder::new(y).x(x).strategy(CubicSpline::new().extrapolate(true)).build().map_err(|e| format!("{e:?}"))?;
        it.interp_scalar(q).map_err(|e| format!("{e:?}"))
    });
    println!("paths: {}", res.len());
    let mut script = String::new();
    let mut defs = vec![]; let mut done = HashMap::new();
    let mut queries = vec![];
    for (i, (pc, r)) in res.iter().enumerate() {
        let pcs: Vec<String> = pc.iter().map(|c| smt_cond(c, &mut defs, &mut done)).collect();
        match r {
            Ok(Ok(v)) => { let o = smt_real(*v, &mut defs, &mut done); let e = smt_real(p(q), &mut defs, &mut done);
                queries.push((i, "value", format!("(assert (and {} ))\n(assert (not (= {o} {e})))", pcs.join(" ")))); }
            Ok(Err(e)) => { queries.push((i, "err", format!("; {e}\n(assert (and {} true))", pcs.join(" ")))); }
            Err(_) => { queries.push((i, "panic", format!("(assert (and {} true))", pcs.join(" ")))); }
        }
    }
    let names = CTX.with(|c| c.borrow().var_names.clone());
    for nm in &names { script += &format!("(declare-const {nm} Real)\n"); }
    if symbolic_axis { for i in 0..n - 1 { script += &format!("(assert (< x{i} x{}))\n", i + 1); } }
    for d in &defs { script += d; script += "\n"; }
    for (i, kind, qy) in &queries { script += &format!("(push)\n(echo \"path {i} {kind}\")\n{qy}\n(check-sat)\n(pop)\n"); }
    std::fs::write("out.smt2", script).unwrap();
    println!("nodes: {}", CTX.with(|c| c.borrow().nodes.len()));
}
