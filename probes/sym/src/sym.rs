//! Symbolic scalar: a Copy handle into a thread-local hash-consed term arena.
use std::cell::RefCell;
use std::collections::HashMap;
use std::fmt;
use std::ops::*;

fn gcd(a: i128, b: i128) -> i128 { if b == 0 { a.abs() } else { gcd(b, a % b) } }
#[derive(Clone, Copy, PartialEq, Eq, Hash, Debug)]
pub struct Rat(pub i128, pub i128);
impl Rat {
    pub fn new(n: i128, d: i128) -> Rat { assert!(d != 0); let g = gcd(n, d).max(1); let s = if d < 0 { -1 } else { 1 }; Rat(s * n / g, s * d / g) }
    pub fn int(n: i128) -> Rat { Rat(n, 1) }
    pub fn smt(&self) -> String { let a = if self.0 < 0 { format!("(- {}.0)", -self.0) } else { format!("{}.0", self.0) }; if self.1 == 1 { a } else { format!("(/ {} {}.0)", a, self.1) } }
}
#[derive(Clone, Copy, PartialEq, Eq, Hash, Debug)]
pub enum Op { Add, Sub, Mul, Div, Rem, RemEuclid, DivEuclid }
#[derive(Clone, PartialEq, Eq, Hash, Debug)]
pub enum Node { Var(u32), Const(Rat), Bin(Op, u32, u32), Neg(u32) }
#[derive(Clone, Copy, PartialEq, Eq, Hash, Debug)]
pub enum Cmp { Lt, Le, Gt, Ge, Eq }
#[derive(Clone, PartialEq, Eq, Hash, Debug)]
pub enum Cond { Cmp(Cmp, u32, u32), ToUsize(u32, Option<usize>) }

#[derive(Default)]
pub struct Ctx {
    pub nodes: Vec<Node>, pub intern: HashMap<Node, u32>, pub var_names: Vec<String>,
    // path state
    pub prefix: Vec<usize>, pub trace: Vec<(usize, usize)>, // (arity, taken)
    pub pc: Vec<(Cond, bool)>, pub memo: HashMap<Cond, bool>,
    pub max_index: usize, pub mode_o: bool,
}
thread_local! { pub static CTX: RefCell<Ctx> = RefCell::new(Ctx::default()); }

impl Ctx {
    pub fn mk(&mut self, n: Node) -> u32 {
        if let Some(&i) = self.intern.get(&n) { return i; }
        let i = self.nodes.len() as u32; self.nodes.push(n.clone()); self.intern.insert(n, i); i
    }
    fn choose(&mut self, arity: usize) -> usize {
        let pos = self.trace.len();
        let t = if pos < self.prefix.len() { self.prefix[pos] } else { 0 };
        self.trace.push((arity, t)); t
    }
    pub fn reset_path(&mut self, prefix: Vec<usize>) { self.prefix = prefix; self.trace.clear(); self.pc.clear(); self.memo.clear(); }
    /// next DFS prefix or None when exhausted
    pub fn next_prefix(&self) -> Option<Vec<usize>> {
        let mut t: Vec<(usize, usize)> = self.trace.clone();
        while let Some(&(a, k)) = t.last() { if k + 1 < a { let n = t.len(); t[n - 1].1 = k + 1; return Some(t.iter().map(|x| x.1).collect()); } t.pop(); }
        None
    }
}
#[derive(Clone, Copy)]
pub struct Sym(pub u32);
unsafe impl Send for Sym {}
impl Sym {
    pub fn var(name: &str) -> Sym { CTX.with(|c| { let mut c = c.borrow_mut(); let id = c.var_names.iter().position(|n| n == name).unwrap_or_else(|| { c.var_names.push(name.to_string()); c.var_names.len() - 1 }) as u32; Sym(c.mk(Node::Var(id))) }) }
    pub fn rat(n: i128, d: i128) -> Sym { CTX.with(|c| Sym(c.borrow_mut().mk(Node::Const(Rat::new(n, d))))) }
    fn konst(self) -> Option<Rat> { CTX.with(|c| if let Node::Const(r) = c.borrow().nodes[self.0 as usize] { Some(r) } else { None }) }
    fn bin(op: Op, a: Sym, b: Sym) -> Sym {
        if let (Some(x), Some(y)) = (a.konst(), b.konst()) {
            let r = match op {
                Op::Add => Some(Rat::new(x.0 * y.1 + y.0 * x.1, x.1 * y.1)), Op::Sub => Some(Rat::new(x.0 * y.1 - y.0 * x.1, x.1 * y.1)),
                Op::Mul => Some(Rat::new(x.0 * y.0, x.1 * y.1)), Op::Div if y.0 != 0 && (!CTX.with(|c| c.borrow().mode_o) || (x.0 * y.1) % (x.1 * y.0) == 0) => Some(Rat::new(x.0 * y.1, x.1 * y.0)), _ => None };
            if let Some(r) = r { return CTX.with(|c| Sym(c.borrow_mut().mk(Node::Const(r)))); }
        }
        CTX.with(|c| Sym(c.borrow_mut().mk(Node::Bin(op, a.0, b.0))))
    }
    fn decide(k: Cmp, a: Sym, b: Sym) -> bool {
        if let (Some(x), Some(y)) = (a.konst(), b.konst()) {
            let (l, r) = (x.0 * y.1, y.0 * x.1);
            return match k { Cmp::Lt => l < r, Cmp::Le => l <= r, Cmp::Gt => l > r, Cmp::Ge => l >= r, Cmp::Eq => l == r };
        }
        CTX.with(|c| { let mut c = c.borrow_mut(); let cond = Cond::Cmp(k, a.0, b.0);
            if let Some(&v) = c.memo.get(&cond) { return v; }
            let t = c.choose(2) == 0; c.memo.insert(cond.clone(), t); c.pc.push((cond, t)); t })
    }
}
macro_rules! binop { ($tr:ident, $f:ident, $op:expr) => {
    impl $tr for Sym { type Output = Sym; fn $f(self, o: Sym) -> Sym { Sym::bin($op, self, o) } }
    impl<'a> $tr<&'a Sym> for Sym { type Output = Sym; fn $f(self, o: &Sym) -> Sym { Sym::bin($op, self, *o) } }
    impl<'a> $tr<Sym> for &'a Sym { type Output = Sym; fn $f(self, o: Sym) -> Sym { Sym::bin($op, *self, o) } }
    impl<'a, 'b> $tr<&'b Sym> for &'a Sym { type Output = Sym; fn $f(self, o: &Sym) -> Sym { Sym::bin($op, *self, *o) } }
} }
binop!(Add, add, Op::Add); binop!(Sub, sub, Op::Sub); binop!(Mul, mul, Op::Mul); binop!(Div, div, Op::Div); binop!(Rem, rem, Op::Rem);
impl Neg for Sym { type Output = Sym; fn neg(self) -> Sym { if let Some(r) = self.konst() { return Sym::rat(-r.0, r.1); } CTX.with(|c| Sym(c.borrow_mut().mk(Node::Neg(self.0)))) } }
impl SubAssign for Sym { fn sub_assign(&mut self, o: Sym) { *self = *self - o; } }
impl AddAssign for Sym { fn add_assign(&mut self, o: Sym) { *self = *self + o; } }
impl MulAssign for Sym { fn mul_assign(&mut self, o: Sym) { *self = *self * o; } }
impl DivAssign for Sym { fn div_assign(&mut self, o: Sym) { *self = *self / o; } }
impl PartialEq for Sym { fn eq(&self, o: &Sym) -> bool { Sym::decide(Cmp::Eq, *self, *o) } }
impl PartialOrd for Sym {
    fn partial_cmp(&self, o: &Sym) -> Option<std::cmp::Ordering> { use std::cmp::Ordering::*; if Sym::decide(Cmp::Lt, *self, *o) { Some(Less) } else if Sym::decide(Cmp::Eq, *self, *o) { Some(Equal) } else if Sym::decide(Cmp::Gt, *self, *o) { Some(Greater) } else { None } }
    fn lt(&self, o: &Sym) -> bool { Sym::decide(Cmp::Lt, *self, *o) } fn le(&self, o: &Sym) -> bool { Sym::decide(Cmp::Le, *self, *o) }
    fn gt(&self, o: &Sym) -> bool { Sym::decide(Cmp::Gt, *self, *o) } fn ge(&self, o: &Sym) -> bool { Sym::decide(Cmp::Ge, *self, *o) }
}
impl fmt::Debug for Sym { fn fmt(&self, f: &mut fmt::Formatter<'_>) -> fmt::Result { write!(f, "t{}", self.0) } }
impl num_traits::Zero for Sym { fn zero() -> Sym { Sym::rat(0, 1) } fn is_zero(&self) -> bool { *self == Sym::rat(0, 1) } }
impl num_traits::One for Sym { fn one() -> Sym { Sym::rat(1, 1) } }
impl num_traits::Num for Sym { type FromStrRadixErr = (); fn from_str_radix(_: &str, _: u32) -> Result<Sym, ()> { Err(()) } }
impl num_traits::ToPrimitive for Sym {
    fn to_i64(&self) -> Option<i64> { self.to_usize().map(|u| u as i64) }
    fn to_u64(&self) -> Option<u64> { self.to_usize().map(|u| u as u64) }
    fn to_usize(&self) -> Option<usize> {
        if let Some(r) = self.konst() { return if r.0 >= 0 { Some((r.0 / r.1) as usize) } else { None }; }
        CTX.with(|c| { let mut c = c.borrow_mut(); let m = c.max_index; let k = if c.mode_o { c.choose(m + 1) } else { c.choose(m + 2) };
            let r = if k <= m { Some(k) } else { None }; c.pc.push((Cond::ToUsize(self.0, r), true)); r })
    }
}
impl num_traits::NumCast for Sym {
    fn from<T: num_traits::ToPrimitive>(n: T) -> Option<Sym> {
        // exact for the integer / dyadic constants the crate uses (0.0, 1.0, 2.0, 3.0, usize indices)
        if let Some(i) = n.to_i64() { let f = n.to_f64().unwrap(); if f == i as f64 { return Some(Sym::rat(i as i128, 1)); } }
        let f = n.to_f64()?; let s = (f * 1048576.0).round(); if s / 1048576.0 == f { Some(Sym::rat(s as i128, 1048576)) } else { None }
    }
}
impl num_traits::Pow<Sym> for Sym { type Output = Sym; fn pow(self, e: Sym) -> Sym { match e.konst() { Some(Rat(2, 1)) => self * self, Some(Rat(1, 1)) => self, _ => unimplemented!("symbolic pow") } } }
impl num_traits::Euclid for Sym {
    fn div_euclid(&self, v: &Sym) -> Sym { Sym::bin(Op::DivEuclid, *self, *v) }
    fn rem_euclid(&self, v: &Sym) -> Sym { Sym::bin(Op::RemEuclid, *self, *v) }
}
impl ndarray::ScalarOperand for Sym {}

/// d/dv of a term (v = var node id); rational-function calculus
pub fn diff(t: Sym, v: Sym) -> Sym {
    let n = CTX.with(|c| c.borrow().nodes[t.0 as usize].clone());
    match n {
        Node::Var(_) => if t.0 == v.0 { Sym::rat(1, 1) } else { Sym::rat(0, 1) },
        Node::Const(_) => Sym::rat(0, 1),
        Node::Neg(a) => -diff(Sym(a), v),
        Node::Bin(op, a, b) => { let (a, b) = (Sym(a), Sym(b)); let (da, db) = (diff(a, v), diff(b, v)); match op {
            Op::Add => da + db, Op::Sub => da - db, Op::Mul => da * b + a * db, Op::Div => (da * b - a * db) / (b * b), _ => unimplemented!() } }
    }
}
pub fn subst(t: Sym, v: Sym, by: Sym) -> Sym {
    if t.0 == v.0 { return by; }
    let n = CTX.with(|c| c.borrow().nodes[t.0 as usize].clone());
    match n { Node::Var(_) | Node::Const(_) => t, Node::Neg(a) => -subst(Sym(a), v, by), Node::Bin(op, a, b) => Sym::bin(op, subst(Sym(a), v, by), subst(Sym(b), v, by)) }
}
/// SMT-LIB (Real) text of a term, fully expanded through define-funs emitted into `defs`
pub fn smt_real(t: Sym, defs: &mut Vec<String>, done: &mut HashMap<u32, String>) -> String {
    if let Some(s) = done.get(&t.0) { return s.clone(); }
    let n = CTX.with(|c| c.borrow().nodes[t.0 as usize].clone());
    let s = match n {
        Node::Var(i) => CTX.with(|c| c.borrow().var_names[i as usize].clone()),
        Node::Const(r) => r.smt(),
        Node::Neg(a) => { let a = smt_real(Sym(a), defs, done); format!("(- {a})") }
        Node::Bin(op, a, b) => { let a = smt_real(Sym(a), defs, done); let b = smt_real(Sym(b), defs, done);
            if op == Op::Div && std::env::var("DIVVAR").is_ok() && !matches!(CTX.with(|c| c.borrow().nodes[match CTX.with(|c| c.borrow().nodes[t.0 as usize].clone()) { Node::Bin(_, _, bb) => bb as usize, _ => 0 }].clone()), Node::Const(_)) {
                let nm = format!("d{}", t.0); defs.push(format!("(declare-const {nm} Real)\n(assert (= (* {nm} {b}) {a}))\n(assert (not (= {b} 0.0)))")); done.insert(t.0, nm.clone()); return nm; }
            if op == Op::RemEuclid { let nm = format!("re{}", t.0); if std::env::var("REM_FREE").is_ok() { defs.push(format!("(declare-const {nm} Real)(assert (and (<= 0.0 {nm}) (< {nm} {b})))")); } else { defs.push(format!("(declare-const {nm} Real)(declare-const k{nm} Int)(assert (= {a} (+ (* (to_real k{nm}) {b}) {nm})))(assert (and (<= 0.0 {nm}) (< {nm} {b})))")); } done.insert(t.0, nm.clone()); return nm; }
            let o = match op { Op::Add => "+", Op::Sub => "-", Op::Mul => "*", Op::Div => "/", _ => unimplemented!() }; format!("({o} {a} {b})") }
    };
    let s = if s.len() > 24 { let nm = format!("n{}", t.0); defs.push(format!("(define-fun {nm} () Real {s})")); nm } else { s };
    done.insert(t.0, s.clone()); s
}
pub fn smt_cond(c: &(Cond, bool), defs: &mut Vec<String>, done: &mut HashMap<u32, String>) -> String {
    let s = match &c.0 {
        Cond::Cmp(k, a, b) => { let a = smt_real(Sym(*a), defs, done); let b = smt_real(Sym(*b), defs, done); let o = match k { Cmp::Lt => "<", Cmp::Le => "<=", Cmp::Gt => ">", Cmp::Ge => ">=", Cmp::Eq => "=" }; format!("({o} {a} {b})") }
        Cond::ToUsize(t, Some(k)) => { let t = smt_real(Sym(*t), defs, done); format!("(and (<= {k}.0 {t}) (< {t} {}.0))", k + 1) }
        Cond::ToUsize(t, None) => { let t = smt_real(Sym(*t), defs, done); format!("(< {t} 0.0)") }
    };
    if c.1 { s } else { format!("(not {s})") }
}

/// rename variables: var name -> name + suffix unless in `shared`
pub fn rename(t: Sym, suffix: &str, shared: &dyn Fn(&str) -> bool) -> Sym {
    let n = CTX.with(|c| c.borrow().nodes[t.0 as usize].clone());
    match n {
        Node::Var(i) => { let nm = CTX.with(|c| c.borrow().var_names[i as usize].clone()); if shared(&nm) { t } else { Sym::var(&format!("{nm}{suffix}")) } }
        Node::Const(_) => t, Node::Neg(a) => { let a = rename(Sym(a), suffix, shared); CTX.with(|c| Sym(c.borrow_mut().mk(Node::Neg(a.0)))) }
        Node::Bin(op, a, b) => { let (a, b) = (rename(Sym(a), suffix, shared), rename(Sym(b), suffix, shared)); CTX.with(|c| Sym(c.borrow_mut().mk(Node::Bin(op, a.0, b.0)))) }
    }
}
pub fn rename_cond(c: &(Cond, bool), suffix: &str, shared: &dyn Fn(&str) -> bool) -> (Cond, bool) {
    match &c.0 { Cond::Cmp(k, a, b) => (Cond::Cmp(*k, rename(Sym(*a), suffix, shared).0, rename(Sym(*b), suffix, shared).0), c.1),
        Cond::ToUsize(t, k) => (Cond::ToUsize(rename(Sym(*t), suffix, shared).0, *k), c.1) }
}
pub const O_PRELUDE: &str = "(define-sort F () (_ FloatingPoint 11 53))\n(declare-fun uadd (F F) F)(declare-fun usub (F F) F)(declare-fun umul (F F) F)(declare-fun udiv (F F) F)(declare-fun urem (F F) F)(declare-fun utousize (F) Int)\n";
pub fn smt_o(t: Sym, defs: &mut Vec<String>, done: &mut HashMap<u32, String>) -> String {
    if let Some(s) = done.get(&t.0) { return s.clone(); }
    let n = CTX.with(|c| c.borrow().nodes[t.0 as usize].clone());
    let s = match n {
        Node::Var(i) => CTX.with(|c| c.borrow().var_names[i as usize].clone()),
        Node::Const(r) => format!("((_ to_fp 11 53) RNE {})", r.smt()),
        Node::Neg(a) => { let a = smt_o(Sym(a), defs, done); format!("(fp.neg {a})") }
        Node::Bin(op, a, b) => { let a = smt_o(Sym(a), defs, done); let b = smt_o(Sym(b), defs, done);
            let o = match op { Op::Add => "uadd", Op::Sub => "usub", Op::Mul => "umul", Op::Div => "udiv", _ => "urem" }; format!("({o} {a} {b})") }
    };
    let s = if s.len() > 24 { let nm = format!("n{}", t.0); defs.push(format!("(define-fun {nm} () F {s})")); nm } else { s };
    done.insert(t.0, s.clone()); s
}
pub fn smt_cond_o(c: &(Cond, bool), defs: &mut Vec<String>, done: &mut HashMap<u32, String>) -> String {
    let s = match &c.0 {
        Cond::Cmp(k, a, b) => { let a = smt_o(Sym(*a), defs, done); let b = smt_o(Sym(*b), defs, done); let o = match k { Cmp::Lt => "fp.lt", Cmp::Le => "fp.leq", Cmp::Gt => "fp.gt", Cmp::Ge => "fp.geq", Cmp::Eq => "fp.eq" }; format!("({o} {a} {b})") }
        Cond::ToUsize(t, Some(k)) => { let t = smt_o(Sym(*t), defs, done); format!("(= (utousize {t}) {k})") }
        Cond::ToUsize(_, None) => "false".into(),
    };
    if c.1 { s } else { format!("(not {s})") }
}
