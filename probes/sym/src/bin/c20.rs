#[path = "../sym.rs"] mod sym;
use ndarray::*;
use ndarray_interp::interp1d::*;
use std::collections::HashMap;
use std::io::Write;
use std::process::{Command, Stdio};
use sym::*;
fn explore<R>(max_index: usize, mut f: impl FnMut() -> R) -> Vec<(Vec<(Cond, bool)>, std::thread::Result<R>)> {
    let mut out = vec![]; let mut prefix = Some(vec![]); std::panic::set_hook(Box::new(|_| {}));
    while let Some(p) = prefix {
        CTX.with(|c| { let mut c = c.borrow_mut(); c.max_index = max_index; c.mode_o = true; c.reset_path(p); });
        let r = std::panic::catch_unwind(std::panic::AssertUnwindSafe(|| f()));
        out.push((CTX.with(|c| c.borrow().pc.clone()), r)); prefix = CTX.with(|c| c.borrow().next_prefix());
    }
    out
}
fn z3(script: &str) -> Vec<String> {
    let mut ch = Command::new("z3").arg("-in").stdin(Stdio::piped()).stdout(Stdio::piped()).spawn().unwrap();
    ch.stdin.take().unwrap().write_all(script.as_bytes()).unwrap();
    String::from_utf8(ch.wait_with_output().unwrap().stdout).unwrap().lines().map(|s| s.to_string()).collect()
}
fn main() {
    let n: usize = std::env::args().nth(1).and_then(|s| s.parse().ok()).unwrap_or(4);
    let lanes = 2;
    let xs: Vec<Sym> = (0..n).map(|i| Sym::var(&format!("x{i}"))).collect();
    let ys: Vec<Sym> = (0..n * lanes).map(|i| Sym::var(&format!("y{}_{}", i / lanes, i % lanes))).collect();
    let q = Sym::var("q");
    let res = explore(n - 1, || {
        let it = Interp1DBuilder::new(Array2::from_shape_vec((n, lanes), ys.clone()).unwrap()).x(Array1::from(xs.clone())).strategy(Linear::new().extrapolate(true)).build().map_err(|e| format!("{e:?}"))?;
        it.interp(q).map_err(|e| format!("{e:?}"))
    });
    let _ = std::panic::take_hook();
    let ok: Vec<(Vec<(Cond, bool)>, Array1<Sym>)> = res.iter().filter_map(|(pc, r)| match r { Ok(Ok(v)) => Some((pc.clone(), v.clone())), _ => None }).collect();
    let others = res.len() - ok.len();
    let valid = |sfx: &str| (0..n - 1).map(|i| format!("(fp.lt x{i}{sfx} x{}{sfx})", i + 1)).collect::<Vec<_>>().join(" ");
    let t0 = std::time::Instant::now();
    let mut total = 0; let mut unsat = 0; let mut bad = vec![];
    for k in 0..n - 1 {
        let shared = move |nm: &str| nm == "q" || nm == format!("x{k}") || nm == format!("x{}", k + 1) || nm.starts_with(&format!("y{k}_")) || nm.starts_with(&format!("y{}_", k + 1));
        let inb = if k == 0 && n == 2 { "true".to_string() } else if k == 0 { format!("(fp.lt q x1)") } else if k == n - 2 { format!("(fp.geq q x{k})") } else { format!("(and (fp.leq x{k} q) (fp.lt q x{}))", k + 1) };
        let xb = |i: usize| if i == k || i == k + 1 { format!("x{i}") } else { let _ = Sym::var(&format!("x{i}b")); format!("x{i}b") };
        let valid_b = (0..n - 1).map(|i| format!("(fp.lt {} {})", xb(i), xb(i + 1))).collect::<Vec<_>>().join(" ");
        let mut defs = vec![]; let mut done = HashMap::new();
        // feasibility of each path in bracket k
        let pcs_a: Vec<String> = ok.iter().map(|(pc, _)| pc.iter().map(|c| smt_cond_o(c, &mut defs, &mut done)).collect::<Vec<_>>().join(" ")).collect();
        let pcs_b: Vec<String> = ok.iter().map(|(pc, _)| pc.iter().map(|c| smt_cond_o(&rename_cond(c, "b", &shared), &mut defs, &mut done)).collect::<Vec<_>>().join(" ")).collect();
        let names = CTX.with(|c| c.borrow().var_names.clone());
        let decl: String = names.iter().map(|n| format!("(declare-const {n} F)\n")).collect();
        let pre = format!("{O_PRELUDE}{decl}{}\n(assert (and {} {} (not (fp.isNaN q)) {inb}))\n", defs.join("\n"), valid(""), valid_b);
        let feas = z3(&format!("{pre}{}", pcs_a.iter().map(|p| format!("(push)(assert (and {p} true))(check-sat)(pop)\n")).collect::<String>()));
        let fa: Vec<usize> = (0..ok.len()).filter(|&i| feas[i] == "sat").collect();
        let mut defs2 = defs.clone(); let mut body = String::new(); let mut idx = vec![];
        for &a in &fa { for &b in &fa { for j in 0..lanes {
            let oa = smt_o(ok[a].1[j], &mut defs2, &mut done); let ob = smt_o(rename(ok[b].1[j], "b", &shared), &mut defs2, &mut done);
            body += &format!("(push)(assert (and {} {} (not (= {oa} {ob}))))(check-sat)(pop)\n", pcs_a[a], pcs_b[b]); idx.push((a, b, j));
        } } }
        let names = CTX.with(|c| c.borrow().var_names.clone());
        let decl: String = names.iter().map(|n| format!("(declare-const {n} F)\n")).collect();
        let pre = format!("{O_PRELUDE}{decl}{}\n(assert (and {} {} (not (fp.isNaN q)) {inb}))\n", defs2.join("\n"), valid(""), valid_b);
        let out = z3(&format!("{pre}{body}")); for l in &out { if l.contains("error") { println!("Z3: {l}"); } } std::fs::write("c20.smt2", format!("{pre}{body}")).unwrap();
        total += out.len(); unsat += out.iter().filter(|l| *l == "unsat").count();
        for (i, l) in out.iter().enumerate() { if l != "unsat" { bad.push((k, idx[i], l.clone())); } }
        println!("bracket {k}: feasible paths {} pair-queries {}", fa.len(), out.len());
    }
    println!("paths {} (non-Ok {others}); queries {total}, unsat {unsat}, other {:?}; {:?}", res.len(), bad.iter().take(5).collect::<Vec<_>>(), t0.elapsed());
}
