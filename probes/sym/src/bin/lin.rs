#[path = "../sym.rs"] mod sym;
use ndarray::*;
use ndarray_interp::interp1d::*;
use std::collections::HashMap;
use sym::*;
fn explore<R>(max_index: usize, mut f: impl FnMut() -> R) -> Vec<(Vec<(Cond, bool)>, std::thread::Result<R>)> {
    let mut out = vec![]; let mut prefix = Some(vec![]); std::panic::set_hook(Box::new(|_| {}));
    while let Some(p) = prefix {
        CTX.with(|c| { let mut c = c.borrow_mut(); c.max_index = max_index; c.reset_path(p); });
        let r = std::panic::catch_unwind(std::panic::AssertUnwindSafe(|| f()));
        out.push((CTX.with(|c| c.borrow().pc.clone()), r)); prefix = CTX.with(|c| c.borrow().next_prefix());
    }
    out
}
fn main() {
    let n = 4; let lanes = 2;
    let xs: Vec<Sym> = (0..n).map(|i| Sym::var(&format!("x{i}"))).collect();
    let ys: Vec<Sym> = (0..n * lanes).map(|i| Sym::var(&format!("y{}_{}", i / lanes, i % lanes))).collect();
    let q = Sym::var("q");
    let res = explore(n - 1, || {
        let x = Array1::from(xs.clone());
        let y = Array2::from_shape_vec((n, lanes), ys.clone()).unwrap();
        let it = Interp1DBuilder::new(y).x(x).strategy(Linear::new().extrapolate(true)).build().map_err(|e| format!("{e:?}"))?;
        it.interp(q).map_err(|e| format!("{e:?}"))
    });
    println!("paths: {}", res.len());
    let mut defs = vec![]; let mut done = HashMap::new(); let mut script = String::new(); let mut qs = vec![];
    for (i, (pc, r)) in res.iter().enumerate() {
        let pure = |c: &(Cond, bool)| match &c.0 { Cond::Cmp(_, a, b) => [a, b].iter().all(|t| CTX.with(|cx| matches!(cx.borrow().nodes[**t as usize], Node::Var(_) | Node::Const(_)))), _ => false };
        let slice = std::env::var("SLICE").is_ok();
        let pcs: Vec<String> = pc.iter().filter(|c| !slice || pure(c)).map(|c| smt_cond(c, &mut defs, &mut done)).collect();
        match r {
            Ok(Ok(v)) => { for j in 0..lanes {
                let o = smt_real(v[j], &mut defs, &mut done);
                // spec: exists bracket i (clamped at ends) with exact line value, cross-multiplied
                let mut alts = vec![];
                for k in 0..n - 1 {
                    let inb = if k == 0 && n - 2 == 0 { "true".to_string() } else if k == 0 { format!("(<= q x{})", k + 1) } else if k == n - 2 { format!("(>= q x{k})") } else { format!("(and (<= x{k} q) (<= q x{}))", k + 1) };
                    alts.push(format!("(and {inb} (= (* (- {o} y{k}_{j}) (- x{} x{k})) (* (- y{}_{j} y{k}_{j}) (- q x{k}))))", k + 1, k + 1));
                }
                if std::env::var("PERK").is_ok() { for k in 0..n - 1 {
                    let inb = if k == 0 { format!("(<= q x{})", k + 1) } else if k == n - 2 { format!("(>= q x{k})") } else { format!("(and (<= x{k} q) (<= q x{}))", k + 1) };
                    qs.push((i, "value", format!("(assert (and {} {inb}))\n(assert (not (= (* (- {o} y{k}_{j}) (- x{} x{k})) (* (- y{}_{j} y{k}_{j}) (- q x{k})))))", pcs.join(" "), k + 1, k + 1)));
                } } else {
                qs.push((i, "value", format!("(assert (and {} true))\n(assert (not (or {})))", pcs.join(" "), alts.join(" ")))); }
            } }
            Ok(Err(_)) => qs.push((i, "err", format!("(assert (and {} true))", pcs.join(" ")))),
            Err(_) => qs.push((i, "panic", format!("(assert (and {} true))", pcs.join(" ")))),
        }
    }
    for nm in CTX.with(|c| c.borrow().var_names.clone()) { script += &format!("(declare-const {nm} Real)\n"); }
    for i in 0..n - 1 { script += &format!("(assert (< x{i} x{}))\n", i + 1); }
    for d in &defs { script += d; script += "\n"; }
    for (i, kind, qy) in &qs { script += &format!("(push)\n(echo \"path {i} {kind}\")\n{qy}\n(check-sat)\n(pop)\n"); }
    std::fs::write("lin.smt2", format!("(set-option :timeout 5000)\n{script}")).unwrap();
}
