#[path = "../sym.rs"] mod sym;
use ndarray::*;
use ndarray_interp::interp1d::cubic_spline::*;
use ndarray_interp::interp1d::*;
use std::collections::HashMap;
use std::io::Write;
use std::process::{Command, Stdio};
use sym::*;
fn explore<R>(max_index: usize, mut f: impl FnMut() -> R) -> Vec<(Vec<(Cond, bool)>, std::thread::Result<R>)> {
    let mut out = vec![]; let mut prefix = Some(vec![]); std::panic::set_hook(Box::new(|_| {}));
    while let Some(p) = prefix {
        CTX.with(|c| { let mut c = c.borrow_mut(); c.max_index = max_index; c.reset_path(p); });
        let r = std::panic::catch_unwind(std::panic::AssertUnwindSafe(|| f()));
        out.push((CTX.with(|c| c.borrow().pc.clone()), r)); prefix = CTX.with(|c| c.borrow().next_prefix());
    }
    let _ = std::panic::take_hook(); out
}
fn z3(script: &str) -> Vec<String> {
    let mut ch = Command::new("z3").arg("-in").stdin(Stdio::piped()).stdout(Stdio::piped()).spawn().unwrap();
    ch.stdin.take().unwrap().write_all(script.as_bytes()).unwrap();
    String::from_utf8(ch.wait_with_output().unwrap().stdout).unwrap().lines().map(|s| s.to_string()).collect()
}
fn main() {
    let which = std::env::args().nth(1).unwrap_or("scale".into());
    let axis = [0i128, 1, 3, 7, 8]; let n = axis.len();
    let xs: Vec<Sym> = axis.iter().map(|&v| Sym::rat(v, 2)).collect();
    let ys: Vec<Sym> = (0..n).map(|i| Sym::var(&format!("y{i}"))).collect();
    let zs: Vec<Sym> = (0..n).map(|i| Sym::var(&format!("z{i}"))).collect();
    let (c, vl, wl) = (Sym::var("c"), Sym::var("vl"), Sym::var("wl"));
    let qnum: i128 = std::env::args().nth(2).and_then(|s| s.parse().ok()).unwrap_or(5);
    let q = Sym::rat(qnum, 8);
    let bc = |v: Sym| BoundaryCondition::Individual(array![RowBoundary::Mixed { left: SingleBoundary::SecondDeriv(v), right: SingleBoundary::NotAKnot }]);
    let res = explore(n - 1, || {
        let mk = |d: Vec<Sym>, v: Sym| Interp1DBuilder::new(Array1::from(d)).x(Array1::from(xs.clone())).strategy(CubicSpline::new().boundary(bc(v)).extrapolate(true)).build().unwrap();
        let a = mk(ys.clone(), vl).interp_scalar(q).unwrap();
        if which == "scale" { let b = mk(ys.iter().map(|&y| c * y).collect(), c * vl).interp_scalar(q).unwrap(); (c * a, b) }
        else { let z = mk(zs.clone(), wl).interp_scalar(q).unwrap(); let s = mk(ys.iter().zip(&zs).map(|(&y, &z)| y + z).collect(), vl + wl).interp_scalar(q).unwrap(); (a + z, s) }
    });
    let mut defs = vec![]; let mut done = HashMap::new(); let mut body = String::new();
    for (pc, r) in &res { if let Ok((l, r)) = r {
        let p = pc.iter().map(|c| smt_cond(c, &mut defs, &mut done)).collect::<Vec<_>>().join(" ");
        let (l, r) = (smt_real(*l, &mut defs, &mut done), smt_real(*r, &mut defs, &mut done));
        body += &format!("(push)(assert (and {p} true))(check-sat)(assert (not (= {l} {r})))(check-sat)(pop)\n"); } }
    let decl: String = CTX.with(|c| c.borrow().var_names.iter().map(|n| format!("(declare-const {n} Real)\n")).collect());
    let t0 = std::time::Instant::now();
    let out = z3(&format!("(set-option :timeout 20000)\n{decl}{}\n{body}", defs.join("\n")));
    let mut tally: HashMap<String, usize> = HashMap::new();
    for ch in out.chunks(2) { *tally.entry(format!("feasible={} differs={}", ch[0], ch.get(1).cloned().unwrap_or_default())).or_default() += 1; }
    println!("{which}: paths {} {:?} {:?}", res.len(), tally, t0.elapsed());
}
