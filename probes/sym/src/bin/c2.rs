#[path = "../sym.rs"] mod sym;
use ndarray::*;
use ndarray_interp::interp1d::cubic_spline::*;
use ndarray_interp::interp1d::*;
use std::collections::{HashMap, BTreeSet};
use std::io::Write;
use std::process::{Command, Stdio};
use sym::*;
fn explore<R>(max_index: usize, mut f: impl FnMut() -> R) -> Vec<(Vec<(Cond, bool)>, std::thread::Result<R>)> {
    let mut out = vec![]; let mut prefix = Some(vec![]); std::panic::set_hook(Box::new(|_| {}));
    while let Some(p) = prefix {
        CTX.with(|c| { let mut c = c.borrow_mut(); c.max_index = max_index; c.reset_path(p); });
        let r = std::panic::catch_unwind(std::panic::AssertUnwindSafe(|| f()));
        out.push((CTX.with(|c| c.borrow().pc.clone()), r)); prefix = CTX.with(|c| c.borrow().next_prefix());
    }
    out
}
fn z3(script: &str) -> Vec<String> {
    let mut ch = Command::new("z3").arg("-in").stdin(Stdio::piped()).stdout(Stdio::piped()).spawn().unwrap();
    ch.stdin.take().unwrap().write_all(script.as_bytes()).unwrap();
    String::from_utf8(ch.wait_with_output().unwrap().stdout).unwrap().lines().map(|s| s.to_string()).collect()
}
fn main() {
    let args: Vec<String> = std::env::args().collect();
    let bc = args.get(1).cloned().unwrap_or("nak".into());
    let axis: Vec<i128> = args.get(2).map(|s| s.split(',').map(|v| v.parse().unwrap()).collect()).unwrap_or(vec![0, 1, 3, 7, 8]);
    let n = axis.len();
    let xs: Vec<Sym> = axis.iter().map(|&v| Sym::rat(v, 2)).collect();
    let mut ys: Vec<Sym> = (0..n).map(|i| Sym::var(&format!("y{i}"))).collect();
    if bc == "per" { ys[n - 1] = ys[0]; }
    let (vl, vr) = (Sym::var("vl"), Sym::var("vr"));
    let q = Sym::var("q");
    let mk = || -> BoundaryCondition<Sym, Ix1> { match bc.as_str() {
        "nak" => BoundaryCondition::NotAKnot, "nat" => BoundaryCondition::Natural, "cla" => BoundaryCondition::Clamped, "per" => BoundaryCondition::Periodic,
        "d1d2" => BoundaryCondition::Individual(array![RowBoundary::Mixed { left: SingleBoundary::FirstDeriv(vl), right: SingleBoundary::SecondDeriv(vr) }]),
        "d2nak" => BoundaryCondition::Individual(array![RowBoundary::Mixed { left: SingleBoundary::SecondDeriv(vl), right: SingleBoundary::NotAKnot }]),
        _ => panic!() } };
    let res = explore(n - 1, || {
        let it = Interp1DBuilder::new(Array1::from(ys.clone())).x(Array1::from(xs.clone())).strategy(CubicSpline::new().boundary(mk())).build().map_err(|e| format!("{e:?}"))?;
        it.interp_scalar(q).map_err(|e| format!("{e:?}"))
    });
    // 1. which paths are feasible for q strictly inside interval i?  collect distinct piece terms
    let mut defs = vec![]; let mut done = HashMap::new();
    let mut pieces: Vec<BTreeSet<u32>> = vec![BTreeSet::new(); n - 1];
    let mut body = String::new(); let mut idx = vec![];
    for (pi, (pc, r)) in res.iter().enumerate() {
        let pcs: Vec<String> = pc.iter().map(|c| smt_cond(c, &mut defs, &mut done)).collect();
        for i in 0..n - 1 {
            let (a, b) = (smt_real(xs[i], &mut defs, &mut done), smt_real(xs[i + 1], &mut defs, &mut done));
            body += &format!("(push)(assert (and (< {a} q) (< q {b}) {}))(check-sat)(pop)\n", pcs.join(" ")); idx.push((pi, i));
        }
    }
    let decl: String = CTX.with(|c| c.borrow().var_names.iter().map(|n| format!("(declare-const {n} Real)\n")).collect());
    let out = z3(&format!("{decl}{}\n{body}", defs.join("\n")));
    let mut feasible = 0;
    for ((pi, i), l) in idx.iter().zip(out.iter()) { if l == "sat" { feasible += 1; match &res[*pi].1 { Ok(Ok(v)) => { pieces[*i].insert(v.0); } other => println!("interval {i}: feasible non-Ok path {:?}", other.as_ref().map(|r| r.as_ref().map(|_| ()))) } } }
    println!("paths {} feasible(path,interval) {} distinct pieces per interval {:?}", res.len(), feasible, pieces.iter().map(|s| s.len()).collect::<Vec<_>>());
    // 2. obligations
    let t: Vec<Sym> = pieces.iter().map(|s| Sym(*s.iter().next().unwrap())).collect();
    let d = |t: Sym, k: usize| { let mut t = t; for _ in 0..k { t = diff(t, q); } t };
    let at = |t: Sym, x: Sym| subst(t, q, x);
    let mut obs: Vec<(String, Sym, Sym)> = vec![];
    for i in 0..n - 1 {
        obs.push((format!("interp-left[{i}]"), at(t[i], xs[i]), ys[i])); obs.push((format!("interp-right[{i}]"), at(t[i], xs[i + 1]), ys[i + 1]));
        obs.push((format!("cubic[{i}]"), d(t[i], 4), Sym::rat(0, 1)));
        if i > 0 { obs.push((format!("C1[{i}]"), at(d(t[i - 1], 1), xs[i]), at(d(t[i], 1), xs[i]))); obs.push((format!("C2[{i}]"), at(d(t[i - 1], 2), xs[i]), at(d(t[i], 2), xs[i]))); }
    }
    let (l, r) = (0, n - 2);
    match bc.as_str() {
        "nak" => { obs.push(("nak-left".into(), d(t[0], 3), d(t[1], 3))); obs.push(("nak-right".into(), d(t[r - 1], 3), d(t[r], 3))); }
        "nat" => { obs.push(("nat-left".into(), at(d(t[l], 2), xs[0]), Sym::rat(0, 1))); obs.push(("nat-right".into(), at(d(t[r], 2), xs[n - 1]), Sym::rat(0, 1))); }
        "cla" => { obs.push(("cla-left".into(), at(d(t[l], 1), xs[0]), Sym::rat(0, 1))); obs.push(("cla-right".into(), at(d(t[r], 1), xs[n - 1]), Sym::rat(0, 1))); }
        "per" => { obs.push(("per-d1".into(), at(d(t[l], 1), xs[0]), at(d(t[r], 1), xs[n - 1]))); obs.push(("per-d2".into(), at(d(t[l], 2), xs[0]), at(d(t[r], 2), xs[n - 1]))); }
        "d1d2" => { obs.push(("d1-left".into(), at(d(t[l], 1), xs[0]), vl)); obs.push(("d2-right".into(), at(d(t[r], 2), xs[n - 1]), vr)); }
        "d2nak" => { obs.push(("d2-left".into(), at(d(t[l], 2), xs[0]), vl)); obs.push(("nak-right".into(), d(t[r - 1], 3), d(t[r], 3))); }
        _ => {} }
    let mut defs = vec![]; let mut done = HashMap::new(); let mut body = String::new();
    for (_, a, b) in &obs { let (a, b) = (smt_real(*a, &mut defs, &mut done), smt_real(*b, &mut defs, &mut done)); body += &format!("(push)(assert (not (= {a} {b})))(check-sat)(pop)\n"); }
    let t0 = std::time::Instant::now();
    let out = z3(&format!("{decl}{}\n{body}", defs.join("\n")));
    for ((nm, _, _), l) in obs.iter().zip(out.iter()) { if l != "unsat" { println!("  {nm}: {l}"); } }
    println!("{} obligations, {} unsat, solver {:?}, nodes {}", obs.len(), out.iter().filter(|l| *l == "unsat").count(), t0.elapsed(), CTX.with(|c| c.borrow().nodes.len()));
}
