#[path = "../sym.rs"] mod sym;
use ndarray::*;
use ndarray_interp::interp2d::*;
use std::collections::HashMap;
use sym::*;
fn explore<R>(max_index: usize, mut f: impl FnMut() -> R) -> Vec<(Vec<(Cond, bool)>, std::thread::Result<R>)> {
    let mut out = vec![]; let mut prefix = Some(vec![]); std::panic::set_hook(Box::new(|_| {}));
    while let Some(p) = prefix {
        CTX.with(|c| { let mut c = c.borrow_mut(); c.max_index = max_index; c.reset_path(p); });
        let r = std::panic::catch_unwind(std::panic::AssertUnwindSafe(|| f()));
        out.push((CTX.with(|c| c.borrow().pc.clone()), r)); prefix = CTX.with(|c| c.borrow().next_prefix());
    }
    out
}
fn main() {
    let (nx, ny) = (3usize, 2usize);
    let mode = std::env::args().nth(1).unwrap_or_default();
    let cx = [0i128, 1, 7]; let cy = [-3i128, 5, 6];
    let xs: Vec<Sym> = (0..nx).map(|i| if mode == "conc" || mode == "cx" { Sym::rat(cx[i], 3) } else { Sym::var(&format!("x{i}")) }).collect();
    let ys: Vec<Sym> = (0..ny).map(|i| if mode == "conc" || mode == "cy" { Sym::rat(cy[i], 2) } else { Sym::var(&format!("y{i}")) }).collect();
    let zs: Vec<Sym> = (0..nx * ny).map(|i| Sym::var(&format!("z{}_{}", i / ny, i % ny))).collect();
    let (qx, qy) = (Sym::var("qx"), Sym::var("qy"));
    let res = explore(nx.max(ny) - 1, || {
        let it = Interp2DBuilder::new(Array2::from_shape_vec((nx, ny), zs.clone()).unwrap()).x(Array1::from(xs.clone())).y(Array1::from(ys.clone())).strategy(Bilinear::new().extrapolate(true)).build().map_err(|e| format!("{e:?}"))?;
        it.interp_scalar(qx, qy).map_err(|e| format!("{e:?}"))
    });
    println!("paths: {}", res.len());
    let mut defs = vec![]; let mut done = HashMap::new(); let mut script = String::new(); let mut qs = vec![];
    let inb = |v: &str, ax: &Vec<Sym>, k: usize, n: usize| { let nm = |i: usize| smt_real(ax[i], &mut vec![], &mut HashMap::new()); if n == 2 { "true".to_string() } else if k == 0 { format!("(<= {v} {})", nm(k + 1)) } else if k == n - 2 { format!("(>= {v} {})", nm(k)) } else { format!("(and (<= {} {v}) (<= {v} {}))", nm(k), nm(k + 1)) } };
    for (i, (pc, r)) in res.iter().enumerate() {
        let pcs: Vec<String> = pc.iter().map(|c| smt_cond(c, &mut defs, &mut done)).collect();
        match r {
            Ok(Ok(v)) => { let o = smt_real(*v, &mut defs, &mut done);
                for a in 0..nx - 1 { for b in 0..ny - 1 {
                    let (x1, x2, y1, y2) = (smt_real(xs[a], &mut defs, &mut done), smt_real(xs[a + 1], &mut defs, &mut done), smt_real(ys[b], &mut defs, &mut done), smt_real(ys[b + 1], &mut defs, &mut done));
                    let (z11, z21, z12, z22) = (format!("z{a}_{b}"), format!("z{}_{b}", a + 1), format!("z{a}_{}", b + 1), format!("z{}_{}", a + 1, b + 1));
                    let rhs = format!("(+ (* {z11} (- {x2} qx) (- {y2} qy)) (* {z21} (- qx {x1}) (- {y2} qy)) (* {z12} (- {x2} qx) (- qy {y1})) (* {z22} (- qx {x1}) (- qy {y1})))");
                    qs.push((i, "value", format!("(assert (and {} {} {}))\n(assert (not (= (* {o} (- {x2} {x1}) (- {y2} {y1})) {rhs})))", pcs.join(" "), inb("qx", &xs, a, nx), inb("qy", &ys, b, ny))));
                } } }
            Ok(Err(_)) => qs.push((i, "err", format!("(assert (and {} true))", pcs.join(" ")))),
            Err(_) => qs.push((i, "panic", format!("(assert (and {} true))", pcs.join(" ")))),
        }
    }
    for nm in CTX.with(|c| c.borrow().var_names.clone()) { script += &format!("(declare-const {nm} Real)\n"); }
    if !(mode == "conc" || mode == "cx") { for i in 0..nx - 1 { script += &format!("(assert (< x{i} x{}))\n", i + 1); } }
    if !(mode == "conc" || mode == "cy") { for i in 0..ny - 1 { script += &format!("(assert (< y{i} y{}))\n", i + 1); } }
    for d in &defs { script += d; script += "\n"; }
    for (i, kind, qy) in &qs { script += &format!("(push)\n(echo \"path {i} {kind}\")\n{qy}\n(check-sat)\n(pop)\n"); }
    std::fs::write(format!("bil{mode}.smt2"), format!("(set-option :timeout 10000)\n{script}")).unwrap();
}
