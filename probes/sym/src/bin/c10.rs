#[path = "../sym.rs"] mod sym;
use ndarray::*;
use ndarray_interp::interp1d::*;
use ndarray_interp::interp1d::cubic_spline::*;
use std::collections::HashMap;
use std::io::Write;
use std::process::{Command, Stdio};
use sym::*;
fn explore<R>(max_index: usize, mut f: impl FnMut() -> R) -> Vec<(Vec<(Cond, bool)>, std::thread::Result<R>)> {
    let mut out = vec![]; let mut prefix = Some(vec![]); std::panic::set_hook(Box::new(|_| {}));
    while let Some(p) = prefix {
        CTX.with(|c| { let mut c = c.borrow_mut(); c.max_index = max_index; c.mode_o = true; c.reset_path(p); });
        let r = std::panic::catch_unwind(std::panic::AssertUnwindSafe(|| f()));
        out.push((CTX.with(|c| c.borrow().pc.clone()), r)); prefix = CTX.with(|c| c.borrow().next_prefix());
    }
    let _ = std::panic::take_hook(); out
}
fn z3(script: &str) -> Vec<String> {
    let mut ch = Command::new("z3").arg("-in").stdin(Stdio::piped()).stdout(Stdio::piped()).spawn().unwrap();
    ch.stdin.take().unwrap().write_all(script.as_bytes()).unwrap();
    String::from_utf8(ch.wait_with_output().unwrap().stdout).unwrap().lines().map(|s| s.to_string()).collect()
}
fn main() {
    let n: usize = std::env::args().nth(1).and_then(|s| s.parse().ok()).unwrap_or(4);
    let xs: Vec<Sym> = (0..n).map(|i| Sym::var(&format!("x{i}"))).collect();
    let ys: Vec<Sym> = (0..n).map(|i| Sym::var(&format!("y{i}"))).collect();
    let res = explore(n - 1, || {
        Interp1DBuilder::new(Array1::from(ys.clone())).x(Array1::from(xs.clone())).strategy(CubicSpline::new().boundary(BoundaryCondition::Periodic)).build().map(|_| ()).map_err(|e| format!("{e:?}").split('(').next().unwrap().to_string())
    });
    let mut defs = vec![]; let mut done = HashMap::new();
    let strict = (0..n - 1).map(|i| format!("(fp.lt x{i} x{})", i + 1)).collect::<Vec<_>>().join(" ");
    let ends = format!("(fp.eq y0 y{})", n - 1);
    let valid = format!("(and {strict} {ends})");
    let mut body = String::new(); let mut what = vec![];
    for (pc, r) in &res {
        let p = pc.iter().map(|c| smt_cond_o(c, &mut defs, &mut done)).collect::<Vec<_>>().join(" ");
        let (kind, bad) = match r { Ok(Ok(())) => ("Ok", format!("(not {valid})")), Ok(Err(k)) if k == "Monotonic" => ("Err(Monotonic)", format!("(and {strict})")),
            Ok(Err(k)) if k == "ValueError" => ("Err(ValueError)", ends.clone()), Ok(Err(k)) => (Box::leak(k.clone().into_boxed_str()) as &str, "true".into()), Err(_) => ("panic", "true".into()) };
        body += &format!("(push)(assert (and {p} true))(check-sat)(assert {bad})(check-sat)(pop)\n"); what.push(kind);
    }
    let decl: String = CTX.with(|c| c.borrow().var_names.iter().map(|n| format!("(declare-const {n} F)\n")).collect());
    let t0 = std::time::Instant::now();
    let out = z3(&format!("{O_PRELUDE}{decl}{}\n{body}", defs.join("\n")));
    let mut tally: HashMap<String, usize> = HashMap::new();
    for (i, k) in what.iter().enumerate() { *tally.entry(format!("{k}: feasible={} contradicts-oracle={}", out[2 * i], out[2 * i + 1])).or_default() += 1; }
    let mut t: Vec<_> = tally.into_iter().collect(); t.sort();
    println!("n={n} paths {} {:?}", res.len(), t0.elapsed()); for l in t { println!("  {:?}", l); }
}
