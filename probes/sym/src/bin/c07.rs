#[path = "../sym.rs"] mod sym;
use ndarray::*;
use ndarray_interp::interp1d::cubic_spline::*;
use ndarray_interp::interp1d::*;
use std::collections::HashMap;
use std::io::Write;
use std::process::{Command, Stdio};
use sym::*;
fn explore<R>(max_index: usize, mut f: impl FnMut() -> R) -> Vec<(Vec<(Cond, bool)>, std::thread::Result<R>)> {
    let mut out = vec![]; let mut prefix = Some(vec![]); std::panic::set_hook(Box::new(|_| {}));
    while let Some(p) = prefix {
        CTX.with(|c| { let mut c = c.borrow_mut(); c.max_index = max_index; c.reset_path(p); });
        let r = std::panic::catch_unwind(std::panic::AssertUnwindSafe(|| f()));
        out.push((CTX.with(|c| c.borrow().pc.clone()), r)); prefix = CTX.with(|c| c.borrow().next_prefix());
    }
    let _ = std::panic::take_hook(); out
}
fn z3(script: &str) -> Vec<String> {
    let mut ch = Command::new("z3").arg("-in").stdin(Stdio::piped()).stdout(Stdio::piped()).spawn().unwrap();
    ch.stdin.take().unwrap().write_all(script.as_bytes()).unwrap();
    String::from_utf8(ch.wait_with_output().unwrap().stdout).unwrap().lines().map(|s| s.to_string()).collect()
}
fn main() {
    let axis: Vec<i128> = std::env::args().nth(1).map(|s| s.split(',').map(|v| v.parse().unwrap()).collect()).unwrap_or(vec![-3, 1, 3, 7, 8]);
    let n = axis.len();
    let xs: Vec<Sym> = axis.iter().map(|&v| Sym::rat(v, 2)).collect();
    let mut ys: Vec<Sym> = (0..n).map(|i| Sym::var(&format!("y{i}"))).collect(); ys[n - 1] = ys[0];
    let (x, k) = (Sym::var("x"), Sym::var("k"));
    let p = xs[n - 1] - xs[0];
    let q = x + k * p;
    let run = |qq: Sym| explore(n - 1, || {
        let it = Interp1DBuilder::new(Array1::from(ys.clone())).x(Array1::from(xs.clone())).strategy(CubicSpline::new().boundary(BoundaryCondition::Periodic).extrapolate(true)).build().map_err(|e| format!("{e:?}"))?;
        it.interp_scalar(qq).map_err(|e| format!("{e:?}"))
    });
    let ra = run(q); let rb = run(x);
    let mut defs = vec![]; let mut done = HashMap::new();
    let enc = |r: &Vec<(Vec<(Cond, bool)>, std::thread::Result<Result<Sym, String>>)>, defs: &mut Vec<String>, done: &mut HashMap<u32, String>| -> Vec<(String, Option<String>)> {
        r.iter().map(|(pc, r)| (pc.iter().map(|c| smt_cond(c, defs, done)).collect::<Vec<_>>().join(" "), match r { Ok(Ok(v)) => Some(smt_real(*v, defs, done)), _ => None })).collect() };
    let ea = enc(&ra, &mut defs, &mut done); let eb = enc(&rb, &mut defs, &mut done);
    let (x0, xn) = (smt_real(xs[0], &mut defs, &mut done), smt_real(xs[n - 1], &mut defs, &mut done));
    let decl: String = CTX.with(|c| c.borrow().var_names.iter().map(|n| format!("(declare-const {n} Real)\n")).collect());
    let free = std::env::var("REM_FREE").is_ok();
    let renames: Vec<String> = done.values().filter(|v| v.starts_with("re")).cloned().collect();
    let link = if free { renames.iter().map(|r| format!("(= x (+ {r} {x0}))")).collect::<Vec<_>>().join(" ") } else { "true".into() };
    let pre = if free { format!("{decl}(assert (and (<= {x0} x) (<= x {xn}) (or (< (+ x (* k {p})) {x0}) (> (+ x (* k {p})) {xn}))))\n{}\n(assert (and {link} true))\n", defs.join("\n"), p = smt_real(p, &mut vec![], &mut HashMap::new())) } else { format!("{decl}(assert (and (is_int k) (not (= k 0.0)) (<= {x0} x) (<= x {xn})))\n{}\n", defs.join("\n")) };
    let t0 = std::time::Instant::now();
    let fa = z3(&format!("(set-option :timeout 20000)\n{pre}{}", ea.iter().map(|(pa, _)| format!("(push)(assert (and {pa} true))(check-sat)(pop)\n")).collect::<String>()));
    let fb = z3(&format!("(set-option :timeout 20000)\n{pre}{}", eb.iter().map(|(pb, _)| format!("(push)(assert (and {pb} true))(check-sat)(pop)\n")).collect::<String>()));
    let ia: Vec<usize> = (0..ea.len()).filter(|&i| fa[i] != "unsat").collect(); let ib: Vec<usize> = (0..eb.len()).filter(|&i| fb[i] != "unsat").collect();
    println!("feasible A {} (non-ok among them {}), feasible B {}  {:?}", ia.len(), ia.iter().filter(|&&i| ea[i].1.is_none()).count(), ib.len(), t0.elapsed());
    let mut body = String::new(); let mut kinds = vec![];
    for &a in &ia { if let (pa, Some(oa)) = &ea[a] { for &b in &ib { if let (pb, Some(ob)) = &eb[b] { body += &format!("(push)(assert (and {pa} {pb} (not (= {oa} {ob}))))(check-sat)(pop)\n"); kinds.push("value"); } } } }
    let out = z3(&format!("(set-option :timeout 20000)\n{pre}{body}"));
    let mut tally: HashMap<(String, String), usize> = HashMap::new();
    for (k, l) in kinds.iter().zip(out.iter()) { *tally.entry((k.to_string(), l.clone())).or_default() += 1; }
    println!("paths q:{} x:{}  {:?}  {:?}", ra.len(), rb.len(), tally, t0.elapsed());
    // witness: wrapped path actually feasible with k = -1000000
    let w = z3(&format!("{pre}(assert (= k (- 1000000.0)))\n{}", ea.iter().map(|(pa, oa)| format!("(push)(assert (and {pa} true))(check-sat)(pop) ; {}\n", oa.is_some())).collect::<String>()));
    println!("feasible paths at k=-1e6: {}", w.iter().filter(|l| *l == "sat").count());
}
