use ndarray::*;
use ndarray_interp::interp1d::*;
use ndarray_interp::interp2d::*;
fn t<R: std::fmt::Debug>(name: &str, f: impl FnOnce() -> R + std::panic::UnwindSafe) { let r = std::panic::catch_unwind(f); println!("{name}: {}", match r { Ok(v) => format!("returned {v:?}"), Err(_) => "panicked".into() }); }
fn main() {
    std::panic::set_hook(Box::new(|_| {}));
    let data = array![[0.0, 1.0], [1.0, 2.0], [2.0, 4.0]];
    // 1-D fast path, empty query, wrong trailing shape (3 instead of 2)
    t("1d fast empty-query wrong-trailing", || { let it = Interp1DBuilder::new(data.clone()).build().unwrap(); let q = Array1::<f64>::zeros(0); let mut b = Array2::<f64>::zeros((0, 3)); it.interp_array_into(&q, b.view_mut()).map(|_| b.dim()) });
    // 1-D general path, empty 2-d query, wrong trailing shape
    t("1d general empty-query wrong-trailing", || { let it = Interp1DBuilder::new(data.clone()).build().unwrap(); let q = Array2::<f64>::zeros((0, 2)); let mut b = Array3::<f64>::zeros((0, 2, 3)); it.interp_array_into(&q, b.view_mut()).map(|_| b.dim()) });
    t("1d general empty-query wrong-leading", || { let it = Interp1DBuilder::new(data.clone()).build().unwrap(); let q = Array2::<f64>::zeros((0, 2)); let mut b = Array3::<f64>::zeros((5, 7, 2)); it.interp_array_into(&q, b.view_mut()).map(|_| b.dim()) });
    // interp_into with zero-size trailing?  data (3,0)
    t("1d interp_into zero lanes wrong shape", || { let d = Array2::<f64>::zeros((3, 0)); let it = Interp1DBuilder::new(d).build().unwrap(); let mut b = Array1::<f64>::zeros(0); it.interp_into(1.0, b.view_mut()).map(|_| b.dim()) });
    // 2-D fast path empty query wrong trailing
    let d3 = Array3::<f64>::zeros((2, 2, 2));
    t("2d fast empty-query wrong-trailing", || { let it = Interp2DBuilder::new(d3.clone()).build().unwrap(); let q = Array1::<f64>::zeros(0); let mut b = Array2::<f64>::zeros((0, 5)); it.interp_array_into(&q, &q, b.view_mut()).map(|_| b.dim()) });
    // fast path, permuted trailing with equal count: data (3,2,3) -> trailing (2,3); buffer (k,3,2)
    let d = Array3::<f64>::zeros((3, 2, 3));
    t("1d fast trailing permuted", || { let it = Interp1DBuilder::new(d.clone()).build().unwrap(); let q = array![0.5, 1.0]; let mut b = Array3::<f64>::zeros((2, 3, 2)); it.interp_array_into(&q, b.view_mut()).map(|_| b.dim()) });
    t("1d general trailing permuted", || { let it = Interp1DBuilder::new(d.clone()).build().unwrap(); let q = array![[0.5, 1.0]]; let mut b = Array4::<f64>::zeros((1, 2, 3, 2)); it.interp_array_into(&q, b.view_mut()).map(|_| b.dim()) });
    // strided buffer on fast path
    t("1d fast strided buffer", || { let it = Interp1DBuilder::new(data.clone()).build().unwrap(); let q = array![0.5, 1.0]; let mut big = Array2::<f64>::zeros((4, 4)); let b = big.slice_mut(s![..;2, ..;2]); it.interp_array_into(&q, b).map(|_| big.clone()) });
}
