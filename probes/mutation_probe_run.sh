#!/bin/bash
# usage: run.sh NAME FILE 'sed-expr' probe-cmds...
name=$1; file=$2; expr=$3; shift 3
rm -rf /root/scratch/mut/repo; mkdir -p /root/scratch/mut/repo; cp -r /repo/src /repo/Cargo.toml /repo/Cargo.lock /repo/benches /repo/examples /repo/tests /root/scratch/mut/repo/
cd /root/scratch/mut/repo; sed -i "$expr" $file
if diff -q -r /repo/src src >/dev/null; then echo "$name: MUTATION DID NOT APPLY"; exit; fi
t=$(CARGO_NET_OFFLINE=true CARGO_TARGET_DIR=/root/scratch/mut/tgt cargo test --offline 2>&1 | grep -E "^test result" | awk '{p+=$4; f+=$6} END {print p" passed "f" failed"}')
echo "$name: tests: $t"
cd /root/scratch/s1; sed -i 's|path = "/repo"|path = "/root/scratch/mut/repo"|' Cargo.toml
CARGO_NET_OFFLINE=true cargo build --release --offline --bins 2>&1 | grep -E "^error" -A5 | head
for c in "$@"; do echo "   probe: $c"; eval "$c" 2>&1 | grep -vE "^paths|WARNING" | sed 's/^/      /' | head -6; done
sed -i 's|path = "/root/scratch/mut/repo"|path = "/repo"|' Cargo.toml
