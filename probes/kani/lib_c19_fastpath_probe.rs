#[cfg(kani)]
mod h {
    use ndarray::*;
    use ndarray_interp::interp1d::*;
    fn nofmt(_a: std::fmt::Arguments<'_>) -> String { String::new() }

    // C19-style: fast path (Ix1 query) vs general path (IxDyn query of rank 1) on the real f64 code
    #[kani::proof]
    #[kani::unwind(18)]
    #[kani::stub(alloc::fmt::format, nofmt)]
    fn fastpath_f64_ix1() {
        let xs: [f64; 2] = [1.0, 3.0];
        let ys: [f64; 2] = [2.0, -5.0];
        kani::assume(xs[0] < xs[1]);
        let s = xs[1] - xs[0];
        kani::assume(s.is_finite() && (1.0 / s).is_finite());
        let sel: bool = kani::any(); let q: [f64; 2] = if sel { [1.5, 4.0] } else { [0.0, 3.0] };
        let it = Interp1D::new_unchecked(ArrayView1::from(&xs[..]), ArrayView1::from(&ys[..]), Linear::new().extrapolate(true));
        let mut b1 = [0.0f64; 2];
        let mut b2 = [0.0f64; 2];
        let r1 = it.interp_array_into(&ArrayView1::from(&q[..]), ArrayViewMut1::from(&mut b1[..]));
        let qd = ArrayView1::from(&q[..]).into_dyn();
        let r2 = it.interp_array_into(&qd, ArrayViewMut1::from(&mut b2[..]).into_dyn());
        assert_eq!(r1.is_ok(), r2.is_ok());
        if !q[0].is_nan() && !q[1].is_nan() {
            assert!(r1.is_ok());
            assert!(b1[0].to_bits() == b2[0].to_bits() || (b1[0].is_nan() && b2[0].is_nan()));
            assert!(b1[1].to_bits() == b2[1].to_bits() || (b1[1].is_nan() && b2[1].is_nan()));
        }
        std::mem::forget(r1); std::mem::forget(r2);
    }
}
