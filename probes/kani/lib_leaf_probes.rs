#[cfg(kani)]
mod h {
    use ndarray::*;
    use ndarray_interp::interp1d::*;
    use ndarray_interp::vector_extensions::*;

    #[kani::proof]
    #[kani::unwind(6)]
    fn in_range_f64_3() {
        let xs: [f64; 3] = kani::any();
        let ys: [f64; 3] = kani::any();
        kani::assume(xs[0] < xs[1] && xs[1] < xs[2]);
        let q: f64 = kani::any();
        let it = Interp1D::new_unchecked(ArrayView1::from(&xs[..]), ArrayView1::from(&ys[..]), Linear::new());
        let r = it.is_in_range(q);
        assert_eq!(r, xs[0] <= q && q <= xs[2]);
        if q.is_nan() { assert!(!r); }
        kani::cover!(r);
        kani::cover!(!r);
        let (x1, y1) = it.index_point(1);
        assert!(x1 == xs[1] && y1[()].to_bits() == ys[1].to_bits());
    }

    fn spec<T: PartialOrd + Copy>(a: &[T]) -> (u8, bool) {
        // 0 = NotMonotonic, 1 = Rising, 2 = Falling
        if a.len() < 2 { return (0, false); }
        let (mut lt, mut eq, mut gt, mut un) = (0, 0, 0, 0);
        for i in 0..a.len() - 1 { if a[i] < a[i + 1] { lt += 1 } else if a[i] == a[i + 1] { eq += 1 } else if a[i] > a[i + 1] { gt += 1 } else { un += 1 } }
        if un > 0 { return (0, false); }
        if gt == 0 && lt > 0 { return (1, eq == 0); }
        if lt == 0 && gt > 0 { return (2, eq == 0); }
        (0, false)
    }
    fn class(m: Monotonic) -> (u8, bool) { match m { Monotonic::NotMonotonic => (0, false), Monotonic::Rising { strict } => (1, strict), Monotonic::Falling { strict } => (2, strict) } }

    #[kani::proof]
    #[kani::unwind(8)]
    fn mono_f64_6() {
        let a: [f64; 6] = kani::any();
        let len: usize = kani::any();
        kani::assume(len <= 6);
        let v = ArrayView1::from(&a[..len]);
        let got = class(v.monotonic_prop());
        let has_nan = a[..len].iter().any(|x| x.is_nan());
        if has_nan { assert!(got.0 != 1); } else { assert_eq!(got, spec(&a[..len])); }
    }

    #[kani::proof]
    #[kani::unwind(8)]
    fn lower_idx_i32_4() {
        let a: [i32; 4] = kani::any();
        kani::assume(a[0] < a[1] && a[1] < a[2] && a[2] < a[3]);
        kani::assume(a[0] >= -1_000_000 && a[3] <= 1_000_000);
        let q: i32 = kani::any();
        kani::assume(q >= -2_000_000 && q <= 2_000_000);
        let v = ArrayView1::from(&a[..]);
        let i = v.get_lower_index(q);
        assert!(i <= 2);
        if q >= a[0] && q < a[3] { assert!(a[i] <= q && q < a[i + 1]); }
    }
}
