use ndarray::*;
use ndarray_interp::interp1d::*;
use ndarray_interp::interp1d::cubic_spline::*;
fn main(){
    let x = array![0.0, 1.0, 3.0, 7.0];
    let p = |t:f64| 1.0 + 2.0*t - 0.5*t*t + 0.25*t*t*t;
    let y = x.mapv(p);
    let it = Interp1DBuilder::new(y).x(x.clone()).strategy(CubicSpline::new().extrapolate(true)).build().unwrap();
    for q in [0.5, 2.0, 5.0, 6.5, 8.0] { println!("{q} {} {}", it.interp_scalar(q).unwrap(), p(q)); }
    // uniform
    let x = array![0.0, 1.0, 2.0, 3.0, 4.0];
    let y = x.mapv(p);
    let it = Interp1DBuilder::new(y).x(x.clone()).strategy(CubicSpline::new().extrapolate(true)).build().unwrap();
    for q in [0.5, 2.5, 3.5] { println!("{q} {} {}", it.interp_scalar(q).unwrap(), p(q)); }
    // dyn 0-dim
    let r = std::panic::catch_unwind(|| { let d = ArrayD::<f64>::zeros(IxDyn(&[])); Interp1DBuilder::new(d).build().map(|_|()) });
    println!("dyn0: {:?}", r.map(|r| r.map_err(|e| format!("{e:?}"))));
    // F-order buffer general path
    let data = array![[0.0,1.0],[1.0,2.0],[2.0,4.0]];
    let it = Interp1DBuilder::new(data).build().unwrap();
    let q = array![[0.5,1.0],[1.5,2.0]];
    let r = std::panic::catch_unwind(|| { let mut buf = Array3::<f64>::zeros((2,2,2).f()); it.interp_array_into(&q, buf.view_mut()).map(|_| buf) });
    println!("forder: {:?}", r.is_ok());
    let r = std::panic::catch_unwind(|| { let mut buf = Array3::<f64>::from_elem((3,2,2), -7.0); it.interp_array_into(&q, buf.view_mut()).map(|_| buf) });
    println!("oversize: {:?}", r);
}
