import sys, time
from z3 import *
eb, sb = int(sys.argv[1]), int(sys.argv[2])
web, wsb = int(sys.argv[3]), int(sys.argv[4])
mut = len(sys.argv) > 5
F = FPSort(eb, sb); W = FPSort(web, wsb)
rm = RNE()
x1,x2,y1,y2,q = FPs('x1 x2 y1 y2 q', F)
def bounded(v, lo, hi):
    a = fpAbs(v)
    return And(Not(fpIsNaN(v)), Not(fpIsInf(v)), a <= FPVal(hi, F), Or(fpIsZero(v), a >= FPVal(lo, F)))
s = Solver()
K = 8.0
for v in (x1,x2,y1,y2): s.add(bounded(v, 1/K, K))
s.add(x1 < x2, x1 <= q, q <= x2)
s.add(fpSub(rm, x2, x1) >= FPVal(1/K, F))
# implementation
m = fpDiv(rm, fpSub(rm, y2, y1), fpSub(rm, x2, x1))
if mut:
    r = fpAdd(rm, fpMul(rm, m, fpSub(rm, q, x2)), y1)
else:
    r = fpAdd(rm, fpMul(rm, m, fpSub(rm, q, x1)), y1)
# reference in wide
w = lambda v: fpFPToFP(rm, v, W)
L = fpAdd(rm, w(y1), fpMul(rm, fpSub(rm, w(y2), w(y1)), fpDiv(rm, fpSub(rm, w(q), w(x1)), fpSub(rm, w(x2), w(x1)))))
u = 2.0**(-sb)
mx = fpMax(fpAbs(w(y1)), fpAbs(w(y2)))
tol = fpMul(rm, FPVal(16*u, W), mx)
err = fpAbs(fpSub(rm, w(r), L))
s.add(Not(err <= tol))
t=time.time(); res = s.check(); print(eb,sb,res, round(time.time()-t,2))
if res == sat:
    mo = s.model(); print([ (str(v), mo[v]) for v in (x1,x2,y1,y2,q)])
if res == sat:
    for nm, e in (('m',m),('r',r),('L',L),('tol',tol),('err',err),('wr',w(r))):
        print(nm, mo.eval(e, model_completion=True))
