//! Shared harness code for the CubicSpline properties (C02, C03, and helpers for C06/C07/C15/C16):
//! building the *real* interpolator at an arbitrary scalar type from a rank-generic description,
//! boundary-condition specifications, piece extraction, exact replay by divided differences.
use ndarray::{Array, Array1, ArrayD, Dimension, Ix1, Ix2, Ix3, Ix4, IxDyn, RemoveAxis};
use ndarray_interp::interp1d::cubic_spline::{BoundaryCondition, CubicSpline, RowBoundary, SingleBoundary, SplineNum};
use ndarray_interp::interp1d::Interp1DBuilder;

/// one end of one lane
#[derive(Clone, Copy, Debug, PartialEq, Eq, Hash)]
pub enum End {
    Nak,
    Nat,
    Cla,
    D1,
    D2,
}
impl End {
    pub const ALL: [End; 5] = [End::Nak, End::Nat, End::Cla, End::D1, End::D2];
    pub fn name(&self) -> &'static str {
        match self {
            End::Nak => "NotAKnot",
            End::Nat => "Natural",
            End::Cla => "Clamped",
            End::D1 => "FirstDeriv",
            End::D2 => "SecondDeriv",
        }
    }
    fn single<T: Copy>(&self, v: T) -> SingleBoundary<T> {
        match self {
            End::Nak => SingleBoundary::NotAKnot,
            End::Nat => SingleBoundary::Natural,
            End::Cla => SingleBoundary::Clamped,
            End::D1 => SingleBoundary::FirstDeriv(v),
            End::D2 => SingleBoundary::SecondDeriv(v),
        }
    }
}
/// how one lane's boundary is expressed in the public API
#[derive(Clone, Copy, Debug, PartialEq, Eq, Hash)]
pub enum Row {
    /// RowBoundary::NotAKnot / Natural / Clamped (non-Mixed spelling)
    Plain(End),
    Mixed(End, End),
}
impl Row {
    pub fn ends(&self) -> (End, End) {
        match self {
            Row::Plain(e) => (*e, *e),
            Row::Mixed(l, r) => (*l, *r),
        }
    }
    pub fn name(&self) -> String {
        match self {
            Row::Plain(e) => format!("Row::{}", e.name()),
            Row::Mixed(l, r) => format!("Mixed({},{})", l.name(), r.name()),
        }
    }
}
#[derive(Clone, Debug, PartialEq, Eq, Hash)]
pub enum Bc {
    NotAKnot,
    Natural,
    Clamped,
    Periodic,
    /// one entry per lane, row-major over the trailing shape
    Individual(Vec<Row>),
}
impl Bc {
    pub fn name(&self) -> String {
        match self {
            Bc::NotAKnot => "NotAKnot".into(),
            Bc::Natural => "Natural".into(),
            Bc::Clamped => "Clamped".into(),
            Bc::Periodic => "Periodic".into(),
            Bc::Individual(rows) => format!("Individual[{}]", rows.iter().map(|r| r.name()).collect::<Vec<_>>().join(";")),
        }
    }
    pub fn is_periodic(&self) -> bool {
        matches!(self, Bc::Periodic)
    }
    /// the (left, right) end condition that applies to lane `j`
    pub fn ends(&self, j: usize) -> Option<(End, End)> {
        match self {
            Bc::NotAKnot => Some((End::Nak, End::Nak)),
            Bc::Natural => Some((End::Nat, End::Nat)),
            Bc::Clamped => Some((End::Cla, End::Cla)),
            Bc::Periodic => None,
            Bc::Individual(rows) => Some(rows[j].ends()),
        }
    }
}

/// A spline problem at scalar type T: axis, data of shape [n, trailing...], boundary, derivative values
/// (vl[j], vr[j]) per lane (used only where the lane's end is D1/D2).
#[derive(Clone, Debug)]
pub struct SplineProblem<T> {
    pub x: Vec<T>,
    pub data: ArrayD<T>,
    pub bc: Bc,
    pub vl: Vec<T>,
    pub vr: Vec<T>,
    pub extrapolate: bool,
}
impl<T: SplineNum> SplineProblem<T> {
    pub fn lanes(&self) -> usize {
        self.data.shape()[1..].iter().product()
    }
    fn boundary<D: Dimension>(&self) -> BoundaryCondition<T, D> {
        match &self.bc {
            Bc::NotAKnot => BoundaryCondition::NotAKnot,
            Bc::Natural => BoundaryCondition::Natural,
            Bc::Clamped => BoundaryCondition::Clamped,
            Bc::Periodic => BoundaryCondition::Periodic,
            Bc::Individual(rows) => {
                let mut shape = self.data.shape().to_vec();
                shape[0] = 1;
                let v: Vec<RowBoundary<T>> = rows
                    .iter()
                    .enumerate()
                    .map(|(j, r)| match r {
                        Row::Plain(End::Nak) => RowBoundary::NotAKnot,
                        Row::Plain(End::Nat) => RowBoundary::Natural,
                        Row::Plain(End::Cla) => RowBoundary::Clamped,
                        Row::Plain(e) => RowBoundary::Mixed { left: e.single(self.vl[j]), right: e.single(self.vr[j]) },
                        Row::Mixed(l, r) => RowBoundary::Mixed { left: l.single(self.vl[j]), right: r.single(self.vr[j]) },
                    })
                    .collect();
                let arr = ArrayD::from_shape_vec(IxDyn(&shape), v).unwrap();
                BoundaryCondition::Individual(arr.into_dimensionality::<D>().unwrap())
            }
        }
    }
    fn eval_d<D: Dimension + RemoveAxis>(&self, qs: &[T]) -> Result<Vec<Vec<T>>, String> {
        let data: Array<T, D> = self.data.clone().into_dimensionality::<D>().map_err(|e| format!("dimensionality: {e}"))?;
        let strat = CubicSpline::new().boundary(self.boundary::<D>()).extrapolate(self.extrapolate);
        let it = Interp1DBuilder::new(data).x(Array1::from(self.x.clone())).strategy(strat).build().map_err(|e| format!("BuilderError::{e:?}"))?;
        let mut out = vec![];
        for q in qs {
            let r = it.interp(*q).map_err(|e| format!("InterpolateError::{e:?}"))?;
            out.push(r.iter().copied().collect());
        }
        Ok(out)
    }
    /// build the real interpolator and query it with `interp` at each q; per query the lanes in row-major order
    pub fn eval(&self, qs: &[T]) -> Result<Vec<Vec<T>>, String> {
        match self.data.ndim() {
            1 => self.eval_d::<Ix1>(qs),
            2 => self.eval_d::<Ix2>(qs),
            3 => self.eval_d::<Ix3>(qs),
            4 => self.eval_d::<Ix4>(qs),
            _ => self.eval_d::<IxDyn>(qs),
        }
    }
    /// same through dynamic dimensionality regardless of rank
    pub fn eval_dyn(&self, qs: &[T]) -> Result<Vec<Vec<T>>, String> {
        self.eval_d::<IxDyn>(qs)
    }
}

/// Newton divided differences: coefficients c0..c3 of the cubic through 4 points, in the Newton basis on
/// the abscissae t0..t3; generic over any field-like scalar
pub fn newton4<T>(t: [T; 4], v: [T; 4]) -> [T; 4]
where
    T: Copy + std::ops::Sub<Output = T> + std::ops::Div<Output = T>,
{
    let d01 = (v[1] - v[0]) / (t[1] - t[0]);
    let d12 = (v[2] - v[1]) / (t[2] - t[1]);
    let d23 = (v[3] - v[2]) / (t[3] - t[2]);
    let d012 = (d12 - d01) / (t[2] - t[0]);
    let d123 = (d23 - d12) / (t[3] - t[1]);
    let d0123 = (d123 - d012) / (t[3] - t[0]);
    [v[0], d01, d012, d0123]
}
/// value and derivatives 1..3 at `x` of the Newton-form cubic
pub fn newton4_derivs<T>(t: [T; 4], c: [T; 4], x: T, two: T, six: T) -> [T; 4]
where
    T: Copy + std::ops::Sub<Output = T> + std::ops::Add<Output = T> + std::ops::Mul<Output = T>,
{
    let (a, b, d) = (x - t[0], x - t[1], x - t[2]);
    let p = c[0] + c[1] * a + c[2] * a * b + c[3] * a * b * d;
    let p1 = c[1] + c[2] * (a + b) + c[3] * (a * b + a * d + b * d);
    let p2 = two * c[2] + two * c[3] * (a + b + d);
    let p3 = six * c[3];
    [p, p1, p2, p3]
}
