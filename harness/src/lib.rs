//! vcheck: solver-based checks of ndarray-interp (engine S) - shared library part.
pub mod common;
pub mod engine;
pub use engine::calc::*;
pub use engine::core::*;
pub use engine::json::Json;
pub use engine::report::*;
pub use engine::smt::*;
pub mod c0203;
pub mod spline;
pub mod validate;
pub mod api;
pub mod c01;
pub mod c04;
pub mod prob;
pub mod c05;
pub mod c06;
pub mod c07;
