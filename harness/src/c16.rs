//! C16: polynomials of the strategy's degree are reproduced everywhere (in range and extrapolated).
//! Mode R. The data are *terms* p(x_i) of a polynomial with symbolic coefficients (distinct per lane), the
//! query is symbolic; obligation out = p(q) as a polynomial identity. Linear + affine (symbolic axis and
//! concrete axes), Bilinear + a+bx+cy+dxy (concrete axes), CubicSpline on the concrete axis family.
use std::collections::BTreeMap;

use crate::c0203 as sp;
use crate::common::{axis_family, Args};
use crate::engine::core::{explore, run_concrete, with_ctx, ExploreCfg, Mode, Rat, Sym};
use crate::engine::json::Json;
use crate::engine::report::{par_run, Chk, Report, Verdict};
use crate::engine::smt::sx_to_rat;
use crate::spline::{Bc, End, Row};
use crate::{c01, c04};

enum Item {
    Spl(sp::Cfg, usize),
    Lin(c01::Cfg),
    Bil(c04::Cfg),
}

fn poly(c: &[Sym], x: Sym) -> Sym {
    // Horner
    let mut acc = Sym::int(0);
    for k in (0..c.len()).rev() {
        acc = acc * x + c[k];
    }
    acc
}
fn dpoly(c: &[Sym], x: Sym, order: usize) -> Sym {
    let mut d: Vec<Sym> = c.to_vec();
    for _ in 0..order {
        d = d.iter().enumerate().skip(1).map(|(k, v)| *v * Sym::int(k as i128)).collect();
        if d.is_empty() {
            d = vec![Sym::int(0)];
        }
    }
    poly(&d, x)
}
fn model_of(vals: &[(String, String)]) -> BTreeMap<String, Rat> {
    vals.iter().filter_map(|(k, v)| sx_to_rat(v).map(|r| (k.clone(), r))).collect()
}

/// symbols of a spline configuration whose data and boundary values are sampled from per-lane polynomials of
/// degree `deg` with symbolic coefficients c{k}_{lane}
fn poly_symbols(cfg: &sp::Cfg, deg: usize) -> (sp::Symbols, Vec<Vec<Sym>>) {
    let (n, lanes) = (cfg.axis.n(), cfg.lanes());
    let x = cfg.axis.syms();
    let coef: Vec<Vec<Sym>> = (0..lanes).map(|j| (0..=deg).map(|k| Sym::var(&format!("c{k}_{j}"))).collect()).collect();
    let y: Vec<Vec<Sym>> = (0..n).map(|i| (0..lanes).map(|j| poly(&coef[j], x[i])).collect()).collect();
    let side = |j: usize, e: Option<End>, at: Sym| match e {
        Some(End::D1) => dpoly(&coef[j], at, 1),
        Some(End::D2) => dpoly(&coef[j], at, 2),
        _ => Sym::int(0),
    };
    let vl = (0..lanes).map(|j| side(j, cfg.bc.ends(j).map(|e| e.0), x[0])).collect();
    let vr = (0..lanes).map(|j| side(j, cfg.bc.ends(j).map(|e| e.1), x[n - 1])).collect();
    (sp::Symbols { x, y, vl, vr, q: Sym::var("q") }, coef)
}

fn check_spline(cfg: &sp::Cfg, deg: usize) -> Report {
    with_ctx(|c| c.reset_all());
    let mut chk = Chk::new(Mode::R, cfg.timeout_ms);
    chk.begin_config(&format!("degree-{deg} data, {}", cfg.name()));
    let (n, lanes) = (cfg.axis.n(), cfg.lanes());
    let (s, coef) = poly_symbols(cfg, deg);
    let prob = sp::problem_of(cfg, &s, true);
    let all_vars: Vec<String> = with_ctx(|c| c.var_names.clone());
    for v in &all_vars {
        chk.term(Sym::var(v));
    }
    let expect: Vec<Sym> = (0..lanes).map(|j| poly(&coef[j], s.q)).collect();
    // regions: left of the range, every interval, right of the range
    let mut regions: Vec<(String, Option<usize>)> = vec![("left of the range".into(), None)];
    regions.extend((0..n - 1).map(|i| (format!("interval {i}"), Some(i))));
    regions.push(("right of the range".into(), None));
    let mut canary_done = false;
    for (ri, (rname, interval)) in regions.iter().enumerate() {
        let mut ecfg = ExploreCfg::new(Mode::R, n - 1);
        ecfg.timeout_ms = cfg.timeout_ms;
        let (paths, st) = explore(&ecfg, || {
            match interval {
                Some(i) => {
                    Sym::assume_lt(s.x[*i], s.q);
                    Sym::assume_lt(s.q, s.x[*i + 1]);
                }
                None if ri == 0 => Sym::assume_lt(s.q, s.x[0]),
                None => Sym::assume_lt(s.x[n - 1], s.q),
            }
            prob.eval(&[s.q])
        });
        chk.add_explore_stats(paths.len(), &st);
        let mut seen: Vec<Vec<u32>> = vec![];
        let mut any = false;
        for p in &paths {
            match &p.result {
                Ok(Ok(v)) => {
                    any = true;
                    let key: Vec<u32> = v[0].iter().map(|t| t.0).collect();
                    if seen.contains(&key) {
                        continue;
                    }
                    seen.push(key);
                    for j in 0..lanes {
                        if chk.rep.findings.iter().any(|f| f.reproduced == Some(true)) {
                            break;
                        }
                        // under the path condition (it carries the region of q and any data-dependent decision of the code,
                        // e.g. a magnitude guard): a model then really drives the code down this path
                        let mut a = chk.pc(&p.pc);
                        a.push(format!("(not (= {} {}))", chk.term(v[0][j]), chk.term(expect[j])));
                        if let Verdict::Cex(vals) = chk.must_unsat("polynomial-reproduced", &format!("{rname}, lane {j}: S(q) = p(q) for every coefficient vector and query"), &a, &all_vars) {
                            // exact replay: bind coefficients and q, run the real crate concretely
                            let m = model_of(&vals);
                            with_ctx(|c| {
                                c.bindings.clear();
                                for (k, v) in &m {
                                    c.bindings.insert(k.clone(), *v);
                                }
                            });
                            let (s2, coef2) = poly_symbols(cfg, deg);
                            let q2 = Sym::var("q");
                            // the solver's q may lie anywhere: the identity is polynomial, so replay at a point of this region
                            // the model's own q lies in this region (the path condition was part of the query)
                            let probe = if q2.konst().is_some() {
                                q2
                            } else {
                                match interval {
                                    Some(i) => (s2.x[*i] + s2.x[*i + 1]) / Sym::int(2),
                                    None if ri == 0 => s2.x[0] - Sym::int(1),
                                    None => s2.x[n - 1] + Sym::int(1),
                                }
                            };
                            let got = run_concrete(Mode::R, || sp::problem_of(cfg, &s2, true).eval(&[probe]));
                            let want = poly(&coef2[j], probe);
                            with_ctx(|c| c.bindings.clear());
                            let mut rec = Json::obj().with("config", cfg.name()).with("degree", deg).with("region", rname.as_str()).with("lane", j);
                            let mut mj = Json::obj();
                            for (k, v) in &m {
                                mj.set(k, v.to_string());
                            }
                            rec.set("model", mj);
                            rec.set("probe_query", probe.konst().map(|r| r.to_string()).unwrap_or_default());
                            rec.set("expected_exact", want.konst().map(|r| r.to_string()).unwrap_or("?".into()));
                            let rep = match got {
                                Ok(Ok(v)) => {
                                    rec.set("observed_exact", v[0][j].konst().map(|r| r.to_string()).unwrap_or("?".into()));
                                    if with_ctx(|c| c.overflowed) {
                                        None
                                    } else {
                                        Some(v[0][j].konst() != want.konst())
                                    }
                                }
                                other => {
                                    // the exact run could not be completed (e.g. a comparison against a float constant outside
                                    // the exact rational range): replay natively at f64 with the model's values instead
                                    rec.set("exact_replay", format!("{:?}", other.map(|r| r.map(|_| ()))));
                                    // values the exact rational type cannot hold (e.g. 1e-300) are read approximately from the model text
                                    let approx: BTreeMap<String, f64> = vals.iter().filter_map(|(k, v)| crate::engine::smt::sx_to_f64_approx(v).map(|x| (k.clone(), x))).collect();
                                    let names: Vec<Vec<String>> = (0..lanes).map(|l| (0..=deg).map(|k| format!("c{k}_{l}")).collect()).collect();
                                    let f = |t: Sym| t.konst().map(|r| r.to_f64()).unwrap_or(f64::NAN);
                                    let cval = |l: usize, k: usize| coef2[l][k].konst().map(|r| r.to_f64()).or(approx.get(&names[l][k]).copied()).unwrap_or(0.0);
                                    let cf: Vec<f64> = (0..=deg).map(|k| cval(j, k)).collect();
                                    let pf = |x: f64| cf.iter().rev().fold(0.0, |acc, c| acc * x + c);
                                    let xf: Vec<f64> = cfg.axis.x.iter().map(|r| r.to_f64()).collect();
                                    let lanes_n = cfg.lanes();
                                    let mut shape = vec![n];
                                    shape.extend(&cfg.trailing);
                                    let all_cf: Vec<Vec<f64>> = (0..lanes).map(|l| (0..=deg).map(|k| cval(l, k)).collect()).collect();
                                    let pl = |l: usize, x: f64| all_cf[l].iter().rev().fold(0.0, |acc, c| acc * x + c);
                                    let data: Vec<f64> = (0..n).flat_map(|i| (0..lanes_n).map(move |l| (i, l))).map(|(i, l)| pl(l, xf[i])).collect();
                                    // boundary derivative values from the same polynomial
                                    let dpl = |l: usize, x: f64, order: usize| -> f64 {
                                        let mut d = all_cf[l].clone();
                                        for _ in 0..order {
                                            d = d.iter().enumerate().skip(1).map(|(k, v)| v * k as f64).collect();
                                            if d.is_empty() {
                                                d = vec![0.0];
                                            }
                                        }
                                        d.iter().rev().fold(0.0, |acc, c| acc * x + c)
                                    };
                                    let side = |l: usize, e: Option<End>, at: f64| match e {
                                        Some(End::D1) => dpl(l, at, 1),
                                        Some(End::D2) => dpl(l, at, 2),
                                        _ => 0.0,
                                    };
                                    let vlf: Vec<f64> = (0..lanes_n).map(|l| side(l, cfg.bc.ends(l).map(|e| e.0), xf[0])).collect();
                                    let vrf: Vec<f64> = (0..lanes_n).map(|l| side(l, cfg.bc.ends(l).map(|e| e.1), xf[n - 1])).collect();
                                    let native = crate::spline::SplineProblem { x: xf.clone(), data: ndarray::ArrayD::from_shape_vec(ndarray::IxDyn(&shape), data).unwrap(), bc: cfg.bc.clone(), vl: vlf, vr: vrf, extrapolate: true };
                                    let qf = if f(probe).is_finite() { f(probe) } else { approx.get("q").copied().unwrap_or(xf[0] - 1.0) };
                                    crate::engine::core::silence_panics();
                                    match std::panic::catch_unwind(std::panic::AssertUnwindSafe(|| native.eval(&[qf]))) {
                                        Ok(Ok(v)) => {
                                            let (got, want) = (v[0][j], pf(qf));
                                            rec.set("native_observed", got);
                                            rec.set("native_expected", want);
                                            let scale = cf.iter().fold(0.0f64, |a, c| a.max(c.abs())) * (1.0 + qf.abs().powi(3));
                                            rec.set("native_coefficients", format!("{all_cf:?}"));
                                            if !got.is_finite() || !want.is_finite() {
                                                None
                                            } else {
                                                Some((got - want).abs() > 1e-9 * scale)
                                            }
                                        }
                                        _ => Some(true),
                                    }
                                }
                            };
                            let class = if cfg.axis.name == "uniform" { "uniform-axis" } else { "non-uniform-axis" };
                            let bcclass = match &cfg.bc {
                                Bc::Individual(_) => "Individual".to_string(),
                                b => b.name(),
                            };
                            chk.finding(&format!("C16:spline-degree-{deg}-not-reproduced:{bcclass}:{class}"), &format!("{}: polynomial data of degree {deg} not reproduced in {rname} (lane {j})", cfg.name()), rec, rep);
                        }
                        if !canary_done {
                            // wrong oracle: p with the leading coefficient doubled
                            let mut wrong = coef[j].clone();
                            let last = wrong.len() - 1;
                            wrong[last] = wrong[last] * Sym::int(2);
                            let a = [format!("(not (= {} {}))", chk.term(v[0][j]), chk.term(poly(&wrong, s.q)))];
                            chk.canary("p with doubled leading coefficient", &a);
                            canary_done = true;
                        }
                    }
                }
                Ok(Err(e)) | Err(e) => chk.finding("C16:query-not-answered", &format!("{}: {rname}: {e}", cfg.name()), Json::obj().with("config", cfg.name()), Some(true)),
            }
        }
        chk.rep.witnesses_expected += 1;
        if any {
            chk.rep.witnesses_found += 1;
        } else {
            chk.rep.errors.push(format!("{}: no Ok path in {rname}", cfg.name()));
        }
    }
    chk.rep
}

/// Linear with affine data (symbolic or default axis), any query incl. extrapolated
fn check_linear(cfg: &c01::Cfg) -> Report {
    with_ctx(|c| c.reset_all());
    let mut chk = Chk::new(Mode::R, cfg.timeout_ms);
    chk.begin_config(&format!("affine data, {}", cfg.name()));
    let (n, lanes) = (cfg.n, cfg.lanes());
    let mut s = c01::lin_symbols(n, lanes, cfg.symbolic_axis);
    let coef: Vec<Vec<Sym>> = (0..lanes).map(|j| vec![Sym::var(&format!("c0_{j}")), Sym::var(&format!("c1_{j}"))]).collect();
    s.y = (0..n).map(|i| (0..lanes).map(|j| poly(&coef[j], s.x[i])).collect()).collect();
    let mut ecfg = ExploreCfg::new(Mode::R, n - 1);
    ecfg.timeout_ms = cfg.timeout_ms;
    let (paths, st) = explore(&ecfg, || {
        for i in 0..n - 1 {
            Sym::assume_lt(s.x[i], s.x[i + 1]);
        }
        c01::eval_linear(cfg, &s.x, &s.y, s.q)
    });
    chk.add_explore_stats(paths.len(), &st);
    let all_vars: Vec<String> = with_ctx(|c| c.var_names.clone());
    for v in &all_vars {
        chk.term(Sym::var(v));
    }
    let mut any = false;
    for (pi, p) in paths.iter().enumerate() {
        let pcs = chk.pc(&p.pc);
        match &p.result {
            Ok(Ok(out)) => {
                any = true;
                for j in 0..lanes {
                    let mut a = pcs.clone();
                    a.push(format!("(not (= {} {}))", chk.term(out[j]), chk.term(poly(&coef[j], s.q))));
                    if let Verdict::Cex(vals) = chk.must_unsat("affine-reproduced", &format!("path {pi} lane {j}: out = c0 + c1*q"), &a, &all_vars) {
                        let mut mj = Json::obj();
                        for (k, v) in &vals {
                            mj.set(k, v.as_str());
                        }
                        chk.finding(&format!("C16:linear-affine-not-reproduced:{:?}", cfg.entry), &format!("{}: affine data not reproduced", cfg.name()), Json::obj().with("config", cfg.name()).with("model", mj), Some(true));
                    }
                }
            }
            Ok(Err(e)) | Err(e) => chk.finding("C16:linear-query-not-answered", &format!("{}: {e}", cfg.name()), Json::obj().with("config", cfg.name()), None),
        }
    }
    chk.rep.witnesses_expected += 1;
    chk.rep.witnesses_found += any as u64;
    chk.rep
}

/// Bilinear with data a + b x + c y + d x y
fn check_bilinear(cfg: &c04::Cfg) -> Report {
    with_ctx(|c| c.reset_all());
    let mut chk = Chk::new(Mode::R, cfg.timeout_ms);
    chk.begin_config(&format!("bilinear-form data, {}", cfg.name()));
    let lanes = cfg.lanes();
    let mut s = c04::bil_symbols(cfg);
    let coef: Vec<Vec<Sym>> = (0..lanes).map(|l| (0..4).map(|k| Sym::var(&format!("b{k}_{l}"))).collect()).collect();
    let f = |l: usize, x: Sym, y: Sym| coef[l][0] + coef[l][1] * x + coef[l][2] * y + coef[l][3] * x * y;
    s.z = (0..cfg.nx).map(|i| (0..cfg.ny).map(|j| (0..lanes).map(|l| f(l, s.x[i], s.y[j])).collect()).collect()).collect();
    let mut ecfg = ExploreCfg::new(Mode::R, cfg.nx.max(cfg.ny) - 1);
    ecfg.timeout_ms = cfg.timeout_ms;
    let (paths, st) = explore(&ecfg, || c04::eval_bilinear(cfg, &s.x, &s.y, &s.z, s.qx, s.qy));
    chk.add_explore_stats(paths.len(), &st);
    let all_vars: Vec<String> = with_ctx(|c| c.var_names.clone());
    for v in &all_vars {
        chk.term(Sym::var(v));
    }
    let mut any = false;
    for (pi, p) in paths.iter().enumerate() {
        let pcs = chk.pc(&p.pc);
        match &p.result {
            Ok(Ok(out)) => {
                any = true;
                for l in 0..lanes {
                    let mut a = pcs.clone();
                    a.push(format!("(not (= {} {}))", chk.term(out[l]), chk.term(f(l, s.qx, s.qy))));
                    if let Verdict::Cex(vals) = chk.must_unsat("bilinear-form-reproduced", &format!("path {pi} lane {l}: out = a + b qx + c qy + d qx qy"), &a, &all_vars) {
                        let mut mj = Json::obj();
                        for (k, v) in &vals {
                            mj.set(k, v.as_str());
                        }
                        chk.finding(&format!("C16:bilinear-form-not-reproduced:{:?}", cfg.entry), &format!("{}: bilinear data not reproduced", cfg.name()), Json::obj().with("config", cfg.name()).with("model", mj), Some(true));
                    }
                }
            }
            Ok(Err(e)) | Err(e) => chk.finding("C16:bilinear-query-not-answered", &format!("{}: {e}", cfg.name()), Json::obj().with("config", cfg.name()), None),
        }
    }
    chk.rep.witnesses_expected += 1;
    chk.rep.witnesses_found += any as u64;
    chk.rep
}

fn items(args: &Args) -> Vec<Item> {
    let thorough = args.thorough();
    let timeout_ms = if thorough { 120_000 } else { 20_000 };
    let (nmax, per_n) = if thorough { (10, 24) } else { (6, 10) };
    let mut v = vec![];
    let cub = [End::Nak, End::D1, End::D2];
    let mut sizes: Vec<(usize, usize)> = (3..=nmax).map(|n| (n, per_n)).collect();
    if !thorough {
        sizes.extend([(10, 5), (12, 4)]);
    }
    for (n, per_n) in sizes {
        for (ai, axis) in axis_family(n, per_n, args.seed).into_iter().enumerate() {
            let mut add = |bc: Bc, trailing: Vec<usize>, deg: usize| v.push(Item::Spl(sp::Cfg { axis: axis.clone(), bc, trailing, timeout_ms }, deg));
            // the default NotAKnot spline: any cubic for n >= 4, any quadratic for n = 3
            add(Bc::NotAKnot, if ai % 2 == 0 { vec![] } else { vec![2] }, if n >= 4 { 3 } else { 2 });
            // Natural reproduces straight lines; Clamped constants
            if ai % 3 == 0 {
                add(Bc::Natural, vec![], 1);
            }
            if ai % 5 == 1 {
                add(Bc::Clamped, vec![], 0);
            }
            // derivative / not-a-knot mixes with values taken from the cubic
            let take = if thorough { 9 } else { 3 };
            for k in 0..take {
                let (l, r) = (cub[(ai + k) % 3], cub[(ai / 3 + k * 2 + k / 3) % 3]);
                let deg = if n == 3 && l == End::Nak && r == End::Nak { 2 } else { 3 };
                add(Bc::Individual(vec![Row::Mixed(l, r)]), vec![], deg);
            }
            // two lanes holding different polynomials under different conditions
            if ai % 2 == 1 {
                add(Bc::Individual(vec![Row::Mixed(End::D1, End::D2), Row::Mixed(End::D2, if n >= 4 { End::Nak } else { End::D1 })]), vec![2], 3);
            }
            // affine data satisfies Natural and SecondDeriv(0)-type ends
            if ai % 4 == 2 {
                add(Bc::Individual(vec![Row::Mixed(End::Nat, End::D1)]), vec![], 1);
                add(Bc::Individual(vec![Row::Plain(End::Nat)]), vec![], 1);
            }
        }
    }
    for mut c in c01::configs(args) {
        c.extrapolate = true;
        v.push(Item::Lin(c));
    }
    for mut c in c04::configs(args) {
        c.extrapolate = true;
        c.transposed_twin = false;
        v.push(Item::Bil(c));
    }
    v
}

pub fn run(args: &Args) -> Report {
    let mut rep = par_run(items(args), args.threads, |it| match it {
        Item::Spl(c, d) => check_spline(c, *d),
        Item::Lin(c) => check_linear(c),
        Item::Bil(c) => check_bilinear(c),
    });
    crate::validate::validate_spline(args.seed, &mut rep);
    for f in sp::FUNCTIONS.iter().chain(c01::FUNCTIONS).chain(c04::FUNCTIONS) {
        rep.functions.insert(f.to_string());
    }
    rep.bounds.push(format!("CubicSpline on the concrete axis family, n = 3..{} (quick: plus 10 and 12): NotAKnot + any cubic (n >= 4) / any quadratic (n = 3); Natural + any affine function; Clamped + constants; Mixed pairs over {{NotAKnot, FirstDeriv(p'(end)), SecondDeriv(p''(end))}} + any cubic; two lanes with different polynomials; symbolic coefficients and symbolic query in every interval and on both sides of the range (extrapolate(true))", if args.thorough() { 10 } else { 6 }));
    rep.bounds.push("Linear + affine data (fully symbolic axis and default axis, n as C01) and Bilinear + a+bx+cy+dxy (concrete axes, grids as C04), unconstrained real query".into());
    rep.outside.push("rounding; symbolic spline / bilinear axes; n above the bound".into());
    rep.assumptions.insert("mode R: float operations read as exact real operations".into());
    rep
}
