//! Translator validation (run on every check): the same harness code is executed (a) natively at f64 against
//! the real crate and (b) concolically at `Sym` (each node shadowed by the IEEE evaluation of its
//! operation, decisions following the shadows). The results must be bit-identical; a mismatch means the
//! Sym models of num-traits/std (NumCast, to_usize, Pow, Euclid, constant folding, operand ordering) have
//! drifted from the real instantiation and the run is reported as broken (exit 2), never as a pass.
use ndarray::{ArrayD, IxDyn};

use crate::common::Rng;
use crate::engine::core::{end_concolic, run_concolic, Sym};
use crate::engine::report::Report;
use crate::spline::{Bc, End, Row, SplineProblem};

/// run natively, turning a panic of the crate into an error value (a seeded change may make the native run panic:
/// that must not crash the check - the concolic run then has to panic as well)
fn guarded<T>(f: impl FnOnce() -> Result<T, String>) -> Result<T, String> {
    crate::engine::core::silence_panics();
    match std::panic::catch_unwind(std::panic::AssertUnwindSafe(f)) {
        Ok(r) => r,
        Err(_) => Err("panic".into()),
    }
}
fn same_bits(a: f64, b: f64) -> bool {
    a.to_bits() == b.to_bits() || (a.is_nan() && b.is_nan())
}

pub struct SplineCase {
    pub name: String,
    pub x: Vec<f64>,
    pub shape: Vec<usize>,
    pub data: Vec<f64>,
    pub bc: Bc,
    pub vl: Vec<f64>,
    pub vr: Vec<f64>,
    pub extrapolate: bool,
    pub qs: Vec<f64>,
}

pub fn spline_cases(seed: u64) -> Vec<SplineCase> {
    let mut v = vec![];
    let lin = |a: f64, b: f64, k: usize| -> Vec<f64> { (0..k).map(|i| a + (b - a) * i as f64 / (k - 1) as f64).collect() };
    // data sets of tests/cubic_spline_strat.rs and the doc examples
    let d12 = vec![1.0, 2.0, 2.5, 2.5, 3.0, 2.0, 1.0, -2.0, 3.0, 5.0, 6.3, 8.0];
    let x12: Vec<f64> = (0..12).map(|i| i as f64).collect();
    for (bc, ex) in [(Bc::NotAKnot, false), (Bc::Natural, true), (Bc::Clamped, true), (Bc::Individual(vec![Row::Mixed(End::D1, End::D1)]), true), (Bc::Individual(vec![Row::Mixed(End::D2, End::D2)]), true)] {
        let qs = if ex { lin(-2.0, 13.0, 31) } else { lin(0.0, 11.0, 30) };
        v.push(SplineCase { name: format!("tests 12-point data {}", bc.name()), x: x12.clone(), shape: vec![12], data: d12.clone(), bc, vl: vec![0.5], vr: vec![-0.5], extrapolate: ex, qs });
    }
    let mut dper = d12.clone();
    dper[11] = 1.0;
    v.push(SplineCase { name: "tests periodic".into(), x: x12.clone(), shape: vec![12], data: dper, bc: Bc::Periodic, vl: vec![0.0], vr: vec![0.0], extrapolate: true, qs: lin(-15.0, 30.0, 40) });
    v.push(SplineCase { name: "wikipedia".into(), x: vec![-1.0, 0.0, 3.0], shape: vec![3], data: vec![0.5, 0.0, 3.0], bc: Bc::NotAKnot, vl: vec![0.0], vr: vec![0.0], extrapolate: false, qs: lin(-1.0, 3.0, 10) });
    v.push(SplineCase {
        name: "doc multi bounds".into(),
        x: vec![-1.0, 0.0, 3.0],
        shape: vec![3, 2],
        data: vec![0.5, 1.0, 0.0, 1.5, 3.0, 0.5],
        bc: Bc::Individual(vec![Row::Plain(End::Nat), Row::Mixed(End::Nak, End::D1)]),
        vl: vec![0.0, 0.0],
        vr: vec![0.0, 0.5],
        extrapolate: false,
        qs: lin(-1.0, 3.0, 9),
    });
    v.push(SplineCase { name: "periodic len3 multidim".into(), x: vec![-1.0, 0.0, 3.0], shape: vec![3, 2], data: vec![0.5, 1.0, 0.0, 2.5, 0.5, 1.0], bc: Bc::Periodic, vl: vec![0.0; 2], vr: vec![0.0; 2], extrapolate: true, qs: lin(-6.0, 9.0, 17) });
    v.push(SplineCase { name: "periodic multidim".into(), x: vec![-1.0, 0.0, 2.0, 3.0], shape: vec![4, 2], data: vec![0.5, 1.0, 0.0, 1.5, 0.0, 1.5, 0.5, 1.0], bc: Bc::Periodic, vl: vec![0.0; 2], vr: vec![0.0; 2], extrapolate: true, qs: lin(-6.0, 9.0, 17) });
    // seeded random cases on non-uniform axes
    let mut rng = Rng::new(seed ^ 0x5151);
    for k in 0..12 {
        let n = 3 + rng.below(6) as usize;
        let mut x = vec![rng.f64_in(-5.0, 5.0)];
        for _ in 1..n {
            let l = *x.last().unwrap();
            x.push(l + rng.f64_in(0.01, 4.0));
        }
        let lanes = 1 + rng.below(3) as usize;
        let pick = |r: &mut Rng| End::ALL[r.below(5) as usize];
        let bc = match k % 4 {
            0 => Bc::NotAKnot,
            1 => Bc::Individual((0..lanes).map(|_| Row::Mixed(pick(&mut rng), pick(&mut rng))).collect()),
            2 => Bc::Periodic,
            _ => Bc::Natural,
        };
        let mut data: Vec<f64> = (0..n * lanes).map(|_| rng.f64_in(-10.0, 10.0)).collect();
        if bc.is_periodic() {
            for j in 0..lanes {
                data[(n - 1) * lanes + j] = data[j];
            }
        }
        let (lo, hi) = (x[0], x[n - 1]);
        let mut qs: Vec<f64> = (0..12).map(|_| rng.f64_in(lo - (hi - lo), hi + (hi - lo))).collect();
        qs.extend(x.iter().copied());
        v.push(SplineCase { name: format!("random{k}"), x, shape: vec![n, lanes], data, bc, vl: (0..lanes).map(|_| rng.f64_in(-2.0, 2.0)).collect(), vr: (0..lanes).map(|_| rng.f64_in(-2.0, 2.0)).collect(), extrapolate: true, qs });
    }
    v
}

pub fn validate_spline(seed: u64, rep: &mut Report) {
    for c in spline_cases(seed) {
        let native = guarded(|| SplineProblem { x: c.x.clone(), data: ArrayD::from_shape_vec(IxDyn(&c.shape), c.data.clone()).unwrap(), bc: c.bc.clone(), vl: c.vl.clone(), vr: c.vr.clone(), extrapolate: c.extrapolate }.eval(&c.qs));
        let mut vals: Vec<(String, f64)> = vec![];
        for (i, x) in c.x.iter().enumerate() {
            vals.push((format!("x{i}"), *x));
        }
        for (i, d) in c.data.iter().enumerate() {
            vals.push((format!("d{i}"), *d));
        }
        for (j, (l, r)) in c.vl.iter().zip(&c.vr).enumerate() {
            vals.push((format!("vl{j}"), *l));
            vals.push((format!("vr{j}"), *r));
        }
        for (i, q) in c.qs.iter().enumerate() {
            vals.push((format!("q{i}"), *q));
        }
        let conc = run_concolic(&vals, || {
            let p = SplineProblem {
                x: (0..c.x.len()).map(|i| Sym::var(&format!("x{i}"))).collect(),
                data: ArrayD::from_shape_vec(IxDyn(&c.shape), (0..c.data.len()).map(|i| Sym::var(&format!("d{i}"))).collect()).unwrap(),
                bc: c.bc.clone(),
                vl: (0..c.vl.len()).map(|j| Sym::var(&format!("vl{j}"))).collect(),
                vr: (0..c.vr.len()).map(|j| Sym::var(&format!("vr{j}"))).collect(),
                extrapolate: c.extrapolate,
            };
            let qs: Vec<Sym> = (0..c.qs.len()).map(|i| Sym::var(&format!("q{i}"))).collect();
            p.eval(&qs).map(|rows| rows.iter().map(|r| r.iter().map(|s| s.shadow()).collect::<Vec<f64>>()).collect::<Vec<_>>())
        });
        end_concolic();
        rep.validations += 1;
        let ok = match (&native, &conc) {
            (Ok(a), Ok(Ok(b))) => a.len() == b.len() && a.iter().zip(b).all(|(r, s)| r.len() == s.len() && r.iter().zip(s).all(|(x, y)| same_bits(*x, *y))),
            (Err(a), Ok(Err(b))) => a.split('(').next() == b.split('(').next(),
            (Err(a), Err(_)) => a == "panic",
            _ => false,
        };
        if !ok {
            let show = |r: &Result<Vec<Vec<f64>>, String>| match r {
                Ok(v) => format!("{:?}", v.iter().take(3).collect::<Vec<_>>()),
                Err(e) => e.chars().take(120).collect(),
            };
            let cs = match &conc {
                Ok(r) => show(r),
                Err(p) => format!("panic: {p}"),
            };
            rep.errors.push(format!("translator validation mismatch on spline case '{}': native {} vs concolic {}", c.name, show(&native), cs));
        }
    }
}

// ---------------------------------------------------------------- Linear / Bilinear
use crate::api::{arr1, arrd, build_1d, build_2d, QRank, Strat1};

fn concolic_vals(groups: &[(&str, &[f64])]) -> Vec<(String, f64)> {
    let mut v = vec![];
    for (p, xs) in groups {
        for (i, x) in xs.iter().enumerate() {
            v.push((format!("{p}{i}"), *x));
        }
    }
    v
}
fn vars(p: &str, n: usize) -> Vec<Sym> {
    (0..n).map(|i| Sym::var(&format!("{p}{i}"))).collect()
}
fn cmp_rows(name: &str, native: Result<Vec<f64>, String>, conc: Result<Result<Vec<f64>, String>, String>, rep: &mut Report) {
    rep.validations += 1;
    let ok = match (&native, &conc) {
        (Ok(a), Ok(Ok(b))) => a.len() == b.len() && a.iter().zip(b).all(|(x, y)| same_bits(*x, *y)),
        (Err(a), Ok(Err(b))) => a.split('(').next() == b.split('(').next(),
        (Err(a), Err(_)) => a == "panic",
        _ => false,
    };
    if !ok {
        rep.errors.push(format!("translator validation mismatch on '{name}': native {:?} vs concolic {:?}", native.map(|v| v.into_iter().take(4).collect::<Vec<_>>()), conc.map(|r| r.map(|v| v.into_iter().take(4).collect::<Vec<_>>()))));
    }
}

pub fn validate_linear(seed: u64, rep: &mut Report) {
    let mut cases: Vec<(String, Option<Vec<f64>>, Vec<usize>, Vec<f64>, bool, Vec<f64>)> = vec![];
    // tests/interp1d.rs data sets
    cases.push(("interp_y_only".into(), None, vec![5], vec![0.0, 1.0, 1.5, 1.0, 0.0], false, vec![0.0, 3.5, 0.5, 1.5, 4.0, 2.25]));
    cases.push(("interp_with_x_and_y".into(), Some(vec![-4.0, -3.0, -2.0, -1.0, 0.0, 1.0, 2.0, 3.0, 4.0, 5.0]), vec![10], vec![1.0, 2.0, 3.0, 4.0, 5.0, 6.0, 7.0, 8.0, 9.0, 10.0], true, vec![-4.0, -3.5, 0.2, 5.0, 7.5, -9.0]));
    cases.push(("expspaced".into(), Some((0..10).map(|i| 2f64.powi(i)).collect()), vec![10], (0..10).map(|i| (i * i) as f64 - 3.0).collect(), true, vec![1.0, 1.5, 3.0, 100.0, 511.0, 512.0, 0.1, 2000.0]));
    cases.push(("multi_fn".into(), Some(vec![1.0, 2.0, 3.0, 4.0]), vec![4, 2], vec![0.0, 1.0, 1.0, 2.0, 1.5, 2.5, 1.0, 2.0], true, vec![0.5, 4.0, 2.5, 1.0]));
    let mut rng = Rng::new(seed ^ 0x77);
    for k in 0..10 {
        let n = 2 + rng.below(6) as usize;
        let mut x = vec![rng.f64_in(-1e3, 1e3)];
        for _ in 1..n {
            let l = *x.last().unwrap();
            x.push(l + rng.f64_in(1e-6, 50.0));
        }
        let lanes = 1 + rng.below(3) as usize;
        let data: Vec<f64> = (0..n * lanes).map(|_| rng.f64_in(-1e6, 1e6)).collect();
        let (lo, hi) = (x[0], x[n - 1]);
        let mut qs: Vec<f64> = (0..8).map(|_| rng.f64_in(lo - (hi - lo), hi + (hi - lo))).collect();
        qs.extend(x.iter().copied());
        cases.push((format!("random{k}"), if k % 3 == 0 { None } else { Some(x) }, vec![n, lanes], data, k % 2 == 0, qs));
    }
    for (name, x, shape, data, ex, qs) in cases {
        let qs: Vec<f64> = if x.is_none() { qs.iter().map(|q| q.abs() % (shape[0] as f64 - 1.0)).collect() } else if ex { qs } else { qs.into_iter().filter(|q| *q >= x.as_ref().unwrap()[0] && *q <= *x.as_ref().unwrap().last().unwrap()).collect() };
        let native = guarded(|| -> Result<Vec<f64>, String> {
            let it = build_1d(x.as_ref().map(|x| arr1(x)), arrd(&shape, &data), &Strat1::Linear { extrapolate: ex }, false).map_err(|e| format!("{e:?}"))?;
            let mut out = vec![];
            for q in &qs {
                out.extend(it.interp(*q).map_err(|e| format!("{e:?}"))?.iter().copied());
            }
            out.extend(it.interp_array(arr1(&qs).into_dyn().view(), QRank::Static).map_err(|e| format!("{e:?}"))?.iter().copied());
            Ok(out)
        });
        let xv = x.clone().unwrap_or_default();
        let vals = concolic_vals(&[("x", &xv), ("d", &data), ("q", &qs)]);
        let conc = run_concolic(&vals, || -> Result<Vec<f64>, String> {
            let it = build_1d(x.as_ref().map(|x| arr1(&vars("x", x.len()))), arrd(&shape, &vars("d", data.len())), &Strat1::Linear { extrapolate: ex }, false).map_err(|e| format!("{e:?}"))?;
            let qv = vars("q", qs.len());
            let mut out = vec![];
            for q in &qv {
                out.extend(it.interp(*q).map_err(|e| format!("{e:?}"))?.iter().map(|s| s.shadow()));
            }
            out.extend(it.interp_array(arr1(&qv).into_dyn().view(), QRank::Static).map_err(|e| format!("{e:?}"))?.iter().map(|s| s.shadow()));
            Ok(out)
        });
        end_concolic();
        cmp_rows(&format!("linear {name}"), native, conc, rep);
    }
}

pub fn validate_bilinear(seed: u64, rep: &mut Report) {
    let mut rng = Rng::new(seed ^ 0x2d2d);
    for k in 0..12 {
        let (nx, ny) = (2 + rng.below(4) as usize, 2 + rng.below(4) as usize);
        let mk = |r: &mut Rng, n: usize| {
            let mut x = vec![r.f64_in(-10.0, 10.0)];
            for _ in 1..n {
                let l = *x.last().unwrap();
                x.push(l + r.f64_in(0.01, 5.0));
            }
            x
        };
        let (x, y) = (mk(&mut rng, nx), mk(&mut rng, ny));
        let lanes = 1 + (k % 2);
        let shape = if lanes == 1 { vec![nx, ny] } else { vec![nx, ny, lanes] };
        let data: Vec<f64> = (0..nx * ny * lanes).map(|_| rng.f64_in(-100.0, 100.0)).collect();
        let ex = k % 3 != 0;
        let m = 10;
        let span = |v: &Vec<f64>, r: &mut Rng| if ex { r.f64_in(v[0] - 3.0, v[v.len() - 1] + 3.0) } else { r.f64_in(v[0], v[v.len() - 1]) };
        let mut qx: Vec<f64> = (0..m).map(|_| span(&x, &mut rng)).collect();
        let mut qy: Vec<f64> = (0..m).map(|_| span(&y, &mut rng)).collect();
        qx.push(x[0]);
        qy.push(y[ny - 1]);
        qx.push(x[nx - 1]);
        qy.push(y[0]);
        let (use_x, use_y) = (k % 4 != 1, k % 4 != 2);
        let idx = |n: usize| (0..n).map(|i| i as f64).collect::<Vec<f64>>();
        let (qx, qy) = (if use_x { qx } else { qx.iter().map(|q| q.abs() % (nx as f64 - 1.0)).collect() }, if use_y { qy } else { qy.iter().map(|q| q.abs() % (ny as f64 - 1.0)).collect() });
        let _ = idx;
        let native = guarded(|| -> Result<Vec<f64>, String> {
            let it = build_2d(if use_x { Some(arr1(&x)) } else { None::<ndarray::Array1<f64>> }, if use_y { Some(arr1(&y)) } else { None::<ndarray::Array1<f64>> }, arrd(&shape, &data), ex, false).map_err(|e| format!("{e:?}"))?;
            let mut out = vec![];
            for (a, b) in qx.iter().zip(&qy) {
                out.extend(it.interp(*a, *b).map_err(|e| format!("{e:?}"))?.iter().copied());
            }
            out.extend(it.interp_array(arr1(&qx).into_dyn().view(), arr1(&qy).into_dyn().view(), QRank::Static).map_err(|e| format!("{e:?}"))?.iter().copied());
            Ok(out)
        });
        let vals = concolic_vals(&[("x", &x), ("y", &y), ("d", &data), ("qx", &qx), ("qy", &qy)]);
        let conc = run_concolic(&vals, || -> Result<Vec<f64>, String> {
            let it = build_2d(if use_x { Some(arr1(&vars("x", nx))) } else { None::<ndarray::Array1<Sym>> }, if use_y { Some(arr1(&vars("y", ny))) } else { None::<ndarray::Array1<Sym>> }, arrd(&shape, &vars("d", data.len())), ex, false).map_err(|e| format!("{e:?}"))?;
            let (qxv, qyv) = (vars("qx", qx.len()), vars("qy", qy.len()));
            let mut out = vec![];
            for (a, b) in qxv.iter().zip(&qyv) {
                out.extend(it.interp(*a, *b).map_err(|e| format!("{e:?}"))?.iter().map(|s| s.shadow()));
            }
            out.extend(it.interp_array(arr1(&qxv).into_dyn().view(), arr1(&qyv).into_dyn().view(), QRank::Static).map_err(|e| format!("{e:?}"))?.iter().map(|s| s.shadow()));
            Ok(out)
        });
        end_concolic();
        cmp_rows(&format!("bilinear random{k}"), native, conc, rep);
    }
}
