//! C06: extrapolation continues the end polynomial and never rejects a finite query.
//!  * layer A (mode R): outside the range the value is the border piece evaluated at the query - Linear with a
//!    symbolic axis and Bilinear with concrete axes against the cross-multiplied oracles of C01/C04 with the range
//!    constraint dropped; CubicSpline: the term returned left (right) of the range is, as a polynomial in q,
//!    the piece of the first (last) interval.
//!  * layer D (mode O): with extrapolate(true) no non-NaN query is rejected or panics, and in-range results
//!    are bit-identical to those of the non-extrapolating interpolator built from the same values.
use crate::api::QRank;
use crate::c0203 as sp;
use crate::common::{axis_family, Args};
use crate::engine::core::{explore, with_ctx, ExploreCfg, Mode, Sym};
use crate::engine::json::Json;
use crate::engine::report::{par_run, Chk, Report, Verdict};
use crate::engine::smt::Answer;
use crate::prob::{Call, Kind};
use crate::spline::{Bc, End, Row};
use crate::{c01, c04, c05};

enum Item {
    Lin(c01::Cfg),
    Bil(c04::Cfg),
    Spl(sp::Cfg),
    O(c05::Cfg),
}

/// spline: pieces left and right of the range equal the first / last in-range piece (polynomial identity in q)
fn check_spline(cfg: &sp::Cfg) -> Report {
    with_ctx(|c| c.reset_all());
    let mut chk = Chk::new(Mode::R, cfg.timeout_ms);
    chk.begin_config(&format!("extrapolating {}", cfg.name()));
    let n = cfg.axis.n();
    let lanes = cfg.lanes();
    let s = sp::make_symbols(cfg);
    let prob = sp::problem_of(cfg, &s, true);
    let (first, bad0) = sp::pieces_of_interval(&mut chk, cfg, &s, &prob, 0);
    let (last, bad1) = sp::pieces_of_interval(&mut chk, cfg, &s, &prob, n - 2);
    for b in bad0.iter().chain(&bad1) {
        chk.finding("C06:spline-in-range-not-answered", &format!("{}: {b}", cfg.name()), Json::obj().with("config", cfg.name()), Some(true));
    }
    if first.is_empty() || last.is_empty() {
        return chk.rep;
    }
    let all_vars: Vec<String> = with_ctx(|c| c.var_names.clone());
    for v in &all_vars {
        chk.term(Sym::var(v));
    }
    for (side, inner) in [("left", &first[0]), ("right", &last[0])] {
        let mut ecfg = ExploreCfg::new(Mode::R, n - 1);
        ecfg.timeout_ms = cfg.timeout_ms;
        let (paths, st) = explore(&ecfg, || {
            if side == "left" {
                Sym::assume_lt(s.q, s.x[0]);
            } else {
                Sym::assume_lt(s.x[n - 1], s.q);
            }
            prob.eval(&[s.q])
        });
        chk.add_explore_stats(paths.len(), &st);
        let mut any_ok = false;
        for (pi, p) in paths.iter().enumerate() {
            match &p.result {
                Ok(Ok(v)) => {
                    any_ok = true;
                    for j in 0..lanes {
                        if v[0][j].0 == inner[j].0 {
                            chk.trivially_holds("spline-end-piece");
                            continue;
                        }
                        let a = [format!("(not (= {} {}))", chk.term(v[0][j]), chk.term(inner[j]))];
                        if let Verdict::Cex(vals) = chk.must_unsat("spline-end-piece", &format!("{side} of the range, path {pi} lane {j}: same polynomial as the border piece"), &a, &all_vars) {
                            let mut m = Json::obj();
                            for (k, v) in &vals {
                                m.set(k, v.as_str());
                            }
                            // the two terms differ as functions of (q, data): by construction a genuine difference of the real code's results
                            chk.finding(&format!("C06:spline-extrapolation-not-end-cubic:{side}"), &format!("{}: {side} of the range the spline is not the continuation of the border cubic (lane {j})", cfg.name()), Json::obj().with("config", cfg.name()).with("model", m), Some(true));
                        }
                    }
                }
                Ok(Err(e)) | Err(e) => {
                    chk.finding(&format!("C06:spline-finite-query-not-answered:{side}"), &format!("{}: query {side} of the range not answered: {e}", cfg.name()), Json::obj().with("config", cfg.name()).with("outcome", e.as_str()), Some(true));
                }
            }
        }
        chk.rep.witnesses_expected += 1;
        if any_ok {
            chk.rep.witnesses_found += 1;
        } else {
            chk.rep.errors.push(format!("{}: no Ok path {side} of the range", cfg.name()));
        }
    }
    // canary: where the left end is not NotAKnot the first and second pieces are different cubics, so the claim
    // "the left continuation is the SECOND piece" must be refutable
    if cfg.bc.ends(0).map(|(l, r)| l != End::Nak && !(n == 3 && r == End::Nak)).unwrap_or(false) {
        let (second, _) = sp::pieces_of_interval(&mut chk, cfg, &s, &prob, 1);
        let mut ecfg = ExploreCfg::new(Mode::R, n - 1);
        ecfg.timeout_ms = cfg.timeout_ms;
        let (paths, _) = explore(&ecfg, || {
            Sym::assume_lt(s.q, s.x[0]);
            prob.eval(&[s.q])
        });
        if let (Some(Ok(Ok(v))), Some(sec)) = (paths.first().map(|p| p.result.clone()), second.first()) {
            // evaluated one unit left of the range (concrete abscissa: the query is then linear in the data)
            let at = s.x[0] - Sym::int(1);
            let (l, r) = (crate::engine::calc::subst(v[0][0], s.q, at), crate::engine::calc::subst(sec[0], s.q, at));
            let a = [format!("(not (= {} {}))", chk.term(l), chk.term(r))];
            chk.canary("left continuation claimed to be the SECOND piece", &a);
        }
    }
    chk.rep
}

/// mode O: no rejection / panic for non-NaN queries, and in-range bit-identity with the non-extrapolating twin
pub fn check_o(cfg: &c05::Cfg) -> Report {
    with_ctx(|c| c.reset_all());
    with_ctx(|c| c.mode = Mode::O);
    let mut chk = Chk::new(Mode::O, cfg.timeout_ms);
    chk.begin_config(&cfg.name());
    let s = c05::symbols(cfg, "");
    let mut twin = c05::symbols(cfg, "");
    twin.prob.extrapolate = false;
    let mut ecfg = ExploreCfg::new(Mode::O, cfg.nx.max(cfg.ny).max(2) - 1);
    ecfg.timeout_ms = cfg.timeout_ms;
    let (paths, st) = explore(&ecfg, || {
        c05::assume_valid_axes(cfg, &s);
        for q in &s.qs {
            Sym::assume_not_nan(q.0);
            if cfg.kind.is_2d() {
                Sym::assume_not_nan(q.1);
            }
        }
        let a = s.prob.run(&cfg.call, &s.qs, Sym::int(0));
        let b = twin.prob.run(&cfg.call, &s.qs, Sym::int(0));
        (a, b)
    });
    chk.add_explore_stats(paths.len(), &st);
    let all_vars: Vec<String> = with_ctx(|c| c.var_names.clone());
    for v in &all_vars {
        chk.term(Sym::var(v));
    }
    let (mut n_ok, mut n_both) = (0, 0);
    for (pi, p) in paths.iter().enumerate() {
        let pcs = chk.pc(&p.pc);
        match &p.result {
            Ok((Ok(a), b)) => {
                n_ok += 1;
                if let Ok(b) = b {
                    n_both += 1;
                    for (k, (x, y)) in a.iter().zip(b).enumerate() {
                        if x.0 == y.0 {
                            chk.trivially_holds("in-range-bit-identity");
                            continue;
                        }
                        let mut q = pcs.clone();
                        q.push(format!("(not (= {} {}))", chk.term(*x), chk.term(*y)));
                        if let Verdict::Cex(vals) = chk.must_unsat("in-range-bit-identity", &format!("path {pi} element {k}: same value with and without extrapolation"), &q, &all_vars) {
                            let m = c05::model_f64(&vals);
                            let (pa, qs) = c05::native_problem(cfg, &m, "");
                            let mut pb = pa.clone();
                            pb.extrapolate = false;
                            let (oa, va) = crate::prob::native_outcome(&pa, &cfg.call, &qs, 0.0);
                            let (ob, vb) = crate::prob::native_outcome(&pb, &cfg.call, &qs, 0.0);
                            let differs = match (&va, &vb) {
                                (Some(a), Some(b)) => a.iter().zip(b).any(|(x, y)| x.to_bits() != y.to_bits() && !(x.is_nan() && y.is_nan())),
                                _ => false,
                            };
                            let rec = Json::obj().with("config", cfg.name()).with("model", c05::model_json(&m)).with("with_extrapolation", format!("{oa} {va:?}")).with("without", format!("{ob} {vb:?}"));
                            chk.finding(&format!("C06:in-range-differs:{}:{}", cfg.kind.name(), cfg.call.name()), &format!("{}: in-range result differs with extrapolation enabled", cfg.name()), rec, Some(differs));
                        }
                    }
                }
            }
            Ok((Err(e), _)) if e.starts_with("BuilderError") => {}
            Ok((Err(e), _)) => {
                // a non-NaN query rejected although extrapolation is on (the path is feasible: explored with pruning)
                let (ans, vals) = chk.model(&pcs, &all_vars);
                if matches!(ans, Answer::Sat) {
                    let m = c05::model_f64(&vals);
                    let (rep, rec) = c05::replay_answered_iff_in_range(cfg, &m);
                    chk.finding(&format!("C06:finite-query-rejected:{}:{}", cfg.kind.name(), cfg.call.name()), &format!("{}: non-NaN query rejected with extrapolation enabled: {e}", cfg.name()), rec, rep);
                }
            }
            Err(msg) => {
                if c05::is_cast_fail(msg) {
                    // all queries are non-NaN by assumption: cut by C11
                    *chk.rep.cut_by_assumption.entry("C11: index guess of a non-NaN lookup argument is in range".into()).or_default() += 1;
                    continue;
                }
                let (ans, vals) = chk.model(&pcs, &all_vars);
                if matches!(ans, Answer::Sat) {
                    let m = c05::model_f64(&vals);
                    let (rep, mut rec) = c05::replay_answered_iff_in_range(cfg, &m);
                    rec.set("symbolic_panic", msg.as_str());
                    chk.finding(&format!("C06:panic:{}:{}", cfg.kind.name(), cfg.call.name()), &format!("{}: panic for a non-NaN query: {msg}", cfg.name()), rec, rep);
                }
            }
        }
    }
    chk.rep.witnesses_expected += 2;
    chk.rep.witnesses_found += (n_ok > 0) as u64 + (n_both > 0) as u64;
    if n_ok == 0 || n_both == 0 {
        chk.rep.errors.push(format!("{}: vacuous (Ok paths {n_ok}, in-range twin paths {n_both})", cfg.name()));
    }
    chk.rep
}

fn items(args: &Args) -> Vec<Item> {
    let thorough = args.thorough();
    let mut v = vec![];
    for mut c in c01::configs(args) {
        c.extrapolate = true;
        v.push(Item::Lin(c));
    }
    for mut c in c04::configs(args) {
        c.extrapolate = true;
        c.transposed_twin = false;
        v.push(Item::Bil(c));
    }
    // spline, non-periodic boundaries
    let timeout_ms = if thorough { 120_000 } else { 10_000 };
    let (nmax, per_n) = if thorough { (10, 20) } else { (6, 8) };
    let pairs: Vec<(End, End)> = End::ALL.iter().flat_map(|l| End::ALL.iter().map(move |r| (*l, *r))).collect();
    for n in 3..=nmax {
        for (ai, axis) in axis_family(n, per_n, args.seed).into_iter().enumerate() {
            let mut add = |bc: Bc, trailing: Vec<usize>| v.push(Item::Spl(sp::Cfg { axis: axis.clone(), bc, trailing, timeout_ms }));
            add([Bc::NotAKnot, Bc::Natural, Bc::Clamped][ai % 3].clone(), if ai % 2 == 0 { vec![] } else { vec![2] });
            let (l, r) = pairs[(ai * 3 + n) % 25];
            add(Bc::Individual(vec![Row::Mixed(l, r)]), vec![]);
            if thorough {
                let (l2, r2) = pairs[(ai * 7 + n + 4) % 25];
                add(Bc::Individual(vec![Row::Mixed(l2, r2), Row::Mixed(r, l)]), vec![2]);
            }
        }
    }
    // mode O
    let to = if thorough { 60_000 } else { 20_000 };
    let mut kinds = vec![Kind::Linear, Kind::Spline(Bc::NotAKnot), Kind::Spline(Bc::Natural), Kind::Spline(Bc::Individual(vec![Row::Mixed(End::D1, End::D2)])), Kind::Bilinear];
    if thorough {
        kinds.push(Kind::Spline(Bc::Clamped));
    }
    for kind in kinds {
        let is2 = kind.is_2d();
        let sizes: Vec<(usize, usize)> = if is2 { vec![(2, 3), (3, 2)] } else if matches!(kind, Kind::Linear) { vec![(2, 0), (3, 0)] } else { vec![(3, 0), (4, 0)] };
        for (nx, ny) in sizes {
            let calls = vec![Call::Scalar, Call::Interp, Call::Array(vec![1], QRank::Static), Call::Array(vec![2], QRank::Static), Call::Array(vec![2], QRank::Dyn), Call::ArrayInto(vec![1, 2], QRank::Static)];
            for (k, call) in calls.into_iter().enumerate() {
                if !thorough && is2 && call.n_queries() > 1 && (k + nx) % 2 == 1 {
                    continue;
                }
                let trailing = if call == Call::Scalar || k % 2 == 0 { vec![] } else { vec![2] };
                let trailing = if matches!(kind, Kind::Spline(Bc::Individual(_))) { vec![] } else { trailing };
                v.push(Item::O(c05::Cfg { kind: kind.clone(), nx, ny, trailing, call, extrapolate: true, default_axes: false, dynamic: false, timeout_ms: to }));
            }
        }
    }
    v
}

pub fn run(args: &Args) -> Report {
    let mut rep = par_run(items(args), args.threads, |it| match it {
        Item::Lin(c) => c01::check_config_for("C06", c),
        Item::Bil(c) => c04::check_config_for("C06", c),
        Item::Spl(c) => check_spline(c),
        Item::O(c) => check_o(c),
    });
    crate::validate::validate_linear(args.seed, &mut rep);
    crate::validate::validate_spline(args.seed, &mut rep);
    crate::validate::validate_bilinear(args.seed, &mut rep);
    for f in c01::FUNCTIONS.iter().chain(c04::FUNCTIONS).chain(sp::FUNCTIONS).chain(c05::FUNCTIONS) {
        rep.functions.insert(f.to_string());
    }
    rep.bounds.push("layer A: Linear (symbolic axis, n as C01), Bilinear (concrete axes, grids as C04) with extrapolate(true) and an UNCONSTRAINED real query: border brackets / cells open to the outside; CubicSpline (NotAKnot, Natural, Clamped, Mixed pairs; concrete axis family, n = 3..6 quick / 3..10 thorough): term left/right of the range equals the first/last piece as a polynomial in q".into());
    rep.bounds.push("layer D (mode O): Linear n 2..3, splines n 3..4, Bilinear 2x3/3x2, six entry points, batches of 2; all axis/data values IEEE doubles, queries any non-NaN double (infinite included)".into());
    rep.outside.push("rounding; overflow for queries many spans outside; NaN queries with extrapolation (the code panics by design; the property speaks of finite queries)".into());
    rep.outside.push("periodic boundary with extrapolation: C07".into());
    rep.assumptions.insert("mode R: float operations read as exact real operations".into());
    rep.assumptions.insert("mode O: comparisons bit-precise IEEE, arithmetic uninterpreted".into());
    rep.assumptions.insert("C11 (engine K): the index guess of a non-NaN lookup argument on a valid axis casts to an in-range index".into());
    rep
}
