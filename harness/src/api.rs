//! Rank-erased access to the *real* interpolators. `Interp1D` / `Interp2D` are generic over the data
//! dimension type and their `interp_array*` methods carry a bound on a private trait, so a downstream crate
//! can call them only at concrete dimension types. The macros below stamp out every (data dimension, query
//! dimension) instantiation and expose them behind object-safe traits working on dynamic-rank arrays, so
//! that harnesses can enumerate configurations (ranks, shapes, layouts, storage kinds) at run time.
//! Nothing here re-implements crate logic: every method forwards to the public API of ndarray-interp.
use std::fmt::Debug;

use ndarray::{
    Array, Array1, ArrayBase, ArrayD, ArrayViewD, ArrayViewMutD, Data, DimAdd, Dimension, Ix0, Ix1, Ix2, Ix3, Ix4, Ix5, Ix6, IxDyn,
};
use ndarray_interp::interp1d::cubic_spline::{BoundaryCondition, CubicSpline, RowBoundary, SplineNum};
use ndarray_interp::interp1d::{Interp1D, Interp1DBuilder, Interp1DStrategy, Interp1DStrategyBuilder, Linear};
use ndarray_interp::interp2d::{Bilinear, Interp2D, Interp2DBuilder, Interp2DStrategy, Interp2DStrategyBuilder};
use ndarray_interp::{BuilderError, InterpolateError};

use crate::spline::{Bc, End, Row};

/// how the query array's dimension type is chosen
#[derive(Clone, Copy, Debug, PartialEq, Eq, Hash)]
pub enum QRank {
    /// static dimension type Ix{q.ndim()}
    Static,
    /// IxDyn (takes the general path even for rank 1)
    Dyn,
}

pub trait Dyn1<T> {
    fn data_ndim(&self) -> usize;
    fn interp_scalar(&self, q: T) -> Result<T, InterpolateError>;
    fn interp(&self, q: T) -> Result<ArrayD<T>, InterpolateError>;
    fn interp_into(&self, q: T, buf: ArrayViewMutD<'_, T>) -> Result<(), InterpolateError>;
    fn interp_array(&self, q: ArrayViewD<'_, T>, qr: QRank) -> Result<ArrayD<T>, InterpolateError>;
    fn interp_array_into(&self, q: ArrayViewD<'_, T>, qr: QRank, buf: ArrayViewMutD<'_, T>) -> Result<(), InterpolateError>;
    /// interp_array with an owned / shared (ArcArray) query array instead of a view
    fn interp_array_q_owned(&self, q: ArrayD<T>, qr: QRank) -> Result<ArrayD<T>, InterpolateError>;
    fn interp_array_q_shared(&self, q: ndarray::ArcArray<T, IxDyn>, qr: QRank) -> Result<ArrayD<T>, InterpolateError>;
    fn index_point(&self, i: usize) -> (T, ArrayD<T>);
    fn is_in_range(&self, q: T) -> bool;
    fn get_index_left_of(&self, q: T) -> usize;
}
pub trait Dyn2<T> {
    fn data_ndim(&self) -> usize;
    fn interp_scalar(&self, x: T, y: T) -> Result<T, InterpolateError>;
    fn interp(&self, x: T, y: T) -> Result<ArrayD<T>, InterpolateError>;
    fn interp_into(&self, x: T, y: T, buf: ArrayViewMutD<'_, T>) -> Result<(), InterpolateError>;
    fn interp_array(&self, xs: ArrayViewD<'_, T>, ys: ArrayViewD<'_, T>, qr: QRank) -> Result<ArrayD<T>, InterpolateError>;
    fn interp_array_into(&self, xs: ArrayViewD<'_, T>, ys: ArrayViewD<'_, T>, qr: QRank, buf: ArrayViewMutD<'_, T>) -> Result<(), InterpolateError>;
    fn interp_array_q_owned(&self, xs: ArrayD<T>, ys: ArrayD<T>, qr: QRank) -> Result<ArrayD<T>, InterpolateError>;
    fn interp_array_q_shared(&self, xs: ndarray::ArcArray<T, IxDyn>, ys: ndarray::ArcArray<T, IxDyn>, qr: QRank) -> Result<ArrayD<T>, InterpolateError>;
    fn index_point(&self, i: usize, j: usize) -> (T, T, ArrayD<T>);
    fn is_in_x_range(&self, x: T) -> bool;
    fn is_in_y_range(&self, y: T) -> bool;
    fn get_index_left_of(&self, x: T, y: T) -> (usize, usize);
}

fn rank_panic(what: &str) -> ! {
    panic!("harness misuse: {what} has the wrong rank for this static dimension type (impossible through the typed API)")
}

macro_rules! q_dispatch {
    ($q:expr, $qr:expr, $call:ident) => {
        match ($qr, $q.ndim()) {
            (QRank::Dyn, _) => $call!(IxDyn),
            (QRank::Static, 0) => $call!(Ix0),
            (QRank::Static, 1) => $call!(Ix1),
            (QRank::Static, 2) => $call!(Ix2),
            (QRank::Static, 3) => $call!(Ix3),
            (QRank::Static, 4) => $call!(Ix4),
            _ => panic!("harness: static query rank > 4 not instantiated"),
        }
    };
}

macro_rules! scalar_1d {
    (Ix1, $self:ident, $q:ident) => {
        $self.interp_scalar($q)
    };
    ($D:ty, $self:ident, $q:ident) => {{
        let _ = $q;
        panic!("harness misuse: interp_scalar exists only for Ix1 data")
    }};
}
macro_rules! impl_dyn1 {
    ($D:tt) => {
        impl<Sd, Sx, Strat, T> Dyn1<T> for Interp1D<Sd, Sx, $D, Strat>
        where
            Sd: Data<Elem = T>,
            Sx: Data<Elem = T>,
            T: num_traits::Num + PartialOrd + num_traits::NumCast + Copy + Debug + std::ops::Sub + Send,
            Strat: Interp1DStrategy<Sd, Sx, $D>,
        {
            fn data_ndim(&self) -> usize {
                self.index_point(0).1.ndim() + 1
            }
            fn interp_scalar(&self, q: T) -> Result<T, InterpolateError> {
                scalar_1d!($D, self, q)
            }
            fn interp(&self, q: T) -> Result<ArrayD<T>, InterpolateError> {
                Interp1D::interp(self, q).map(|a| a.into_dyn())
            }
            fn interp_into(&self, q: T, buf: ArrayViewMutD<'_, T>) -> Result<(), InterpolateError> {
                let b = buf.into_dimensionality::<<$D as Dimension>::Smaller>().unwrap_or_else(|_| rank_panic("interp_into buffer"));
                Interp1D::interp_into(self, q, b)
            }
            fn interp_array(&self, q: ArrayViewD<'_, T>, qr: QRank) -> Result<ArrayD<T>, InterpolateError> {
                macro_rules! call {
                    ($Dq:ty) => {{
                        let qq = q.into_dimensionality::<$Dq>().unwrap();
                        Interp1D::interp_array(self, &qq).map(|a| a.into_dyn())
                    }};
                }
                q_dispatch!(q, qr, call)
            }
            fn interp_array_into(&self, q: ArrayViewD<'_, T>, qr: QRank, buf: ArrayViewMutD<'_, T>) -> Result<(), InterpolateError> {
                macro_rules! call {
                    ($Dq:ty) => {{
                        let qq = q.into_dimensionality::<$Dq>().unwrap();
                        let b = buf.into_dimensionality::<<$Dq as DimAdd<<$D as Dimension>::Smaller>>::Output>().unwrap_or_else(|_| rank_panic("interp_array_into buffer"));
                        Interp1D::interp_array_into(self, &qq, b)
                    }};
                }
                q_dispatch!(q, qr, call)
            }
            fn interp_array_q_owned(&self, q: ArrayD<T>, qr: QRank) -> Result<ArrayD<T>, InterpolateError> {
                macro_rules! call {
                    ($Dq:ty) => {{
                        let qq = q.into_dimensionality::<$Dq>().unwrap();
                        Interp1D::interp_array(self, &qq).map(|a| a.into_dyn())
                    }};
                }
                q_dispatch!(q, qr, call)
            }
            fn interp_array_q_shared(&self, q: ndarray::ArcArray<T, IxDyn>, qr: QRank) -> Result<ArrayD<T>, InterpolateError> {
                macro_rules! call {
                    ($Dq:ty) => {{
                        let qq = q.into_dimensionality::<$Dq>().unwrap();
                        Interp1D::interp_array(self, &qq).map(|a| a.into_dyn())
                    }};
                }
                q_dispatch!(q, qr, call)
            }
            fn index_point(&self, i: usize) -> (T, ArrayD<T>) {
                let (x, v) = Interp1D::index_point(self, i);
                (x, v.to_owned().into_dyn())
            }
            fn is_in_range(&self, q: T) -> bool {
                Interp1D::is_in_range(self, q)
            }
            fn get_index_left_of(&self, q: T) -> usize {
                Interp1D::get_index_left_of(self, q)
            }
        }
    };
}
impl_dyn1!(Ix1);
impl_dyn1!(Ix2);
impl_dyn1!(Ix3);
impl_dyn1!(Ix4);
impl_dyn1!(Ix5);
impl_dyn1!(Ix6);
impl_dyn1!(IxDyn);

macro_rules! scalar_2d {
    (Ix2, $self:ident, $x:ident, $y:ident) => {
        $self.interp_scalar($x, $y)
    };
    ($D:ty, $self:ident, $x:ident, $y:ident) => {{
        let _ = ($x, $y);
        panic!("harness misuse: interp_scalar exists only for Ix2 data")
    }};
}
macro_rules! impl_dyn2 {
    ($D:tt) => {
        impl<Sd, Sx, Sy, Strat, T> Dyn2<T> for Interp2D<Sd, Sx, Sy, $D, Strat>
        where
            Sd: Data<Elem = T>,
            Sx: Data<Elem = T>,
            Sy: Data<Elem = T>,
            T: num_traits::Num + PartialOrd + num_traits::NumCast + Copy + Debug + std::ops::Sub + Send,
            Strat: Interp2DStrategy<Sd, Sx, Sy, $D>,
        {
            fn data_ndim(&self) -> usize {
                self.index_point(0, 0).2.ndim() + 2
            }
            fn interp_scalar(&self, x: T, y: T) -> Result<T, InterpolateError> {
                scalar_2d!($D, self, x, y)
            }
            fn interp(&self, x: T, y: T) -> Result<ArrayD<T>, InterpolateError> {
                Interp2D::interp(self, x, y).map(|a| a.into_dyn())
            }
            fn interp_into(&self, x: T, y: T, buf: ArrayViewMutD<'_, T>) -> Result<(), InterpolateError> {
                let b = buf.into_dimensionality::<<<$D as Dimension>::Smaller as Dimension>::Smaller>().unwrap_or_else(|_| rank_panic("interp_into buffer"));
                Interp2D::interp_into(self, x, y, b)
            }
            fn interp_array(&self, xs: ArrayViewD<'_, T>, ys: ArrayViewD<'_, T>, qr: QRank) -> Result<ArrayD<T>, InterpolateError> {
                macro_rules! call {
                    ($Dq:ty) => {{
                        let xq = xs.into_dimensionality::<$Dq>().unwrap();
                        let yq = ys.into_dimensionality::<$Dq>().unwrap_or_else(|_| rank_panic("ys"));
                        Interp2D::interp_array(self, &xq, &yq).map(|a| a.into_dyn())
                    }};
                }
                q_dispatch!(xs, qr, call)
            }
            fn interp_array_into(&self, xs: ArrayViewD<'_, T>, ys: ArrayViewD<'_, T>, qr: QRank, buf: ArrayViewMutD<'_, T>) -> Result<(), InterpolateError> {
                macro_rules! call {
                    ($Dq:ty) => {{
                        let xq = xs.into_dimensionality::<$Dq>().unwrap();
                        let yq = ys.into_dimensionality::<$Dq>().unwrap_or_else(|_| rank_panic("ys"));
                        let b = buf
                            .into_dimensionality::<<$Dq as DimAdd<<<$D as Dimension>::Smaller as Dimension>::Smaller>>::Output>()
                            .unwrap_or_else(|_| rank_panic("interp_array_into buffer"));
                        Interp2D::interp_array_into(self, &xq, &yq, b)
                    }};
                }
                q_dispatch!(xs, qr, call)
            }
            fn interp_array_q_owned(&self, xs: ArrayD<T>, ys: ArrayD<T>, qr: QRank) -> Result<ArrayD<T>, InterpolateError> {
                macro_rules! call {
                    ($Dq:ty) => {{
                        let xq = xs.into_dimensionality::<$Dq>().unwrap();
                        let yq = ys.into_dimensionality::<$Dq>().unwrap_or_else(|_| rank_panic("ys"));
                        Interp2D::interp_array(self, &xq, &yq).map(|a| a.into_dyn())
                    }};
                }
                q_dispatch!(xs, qr, call)
            }
            fn interp_array_q_shared(&self, xs: ndarray::ArcArray<T, IxDyn>, ys: ndarray::ArcArray<T, IxDyn>, qr: QRank) -> Result<ArrayD<T>, InterpolateError> {
                macro_rules! call {
                    ($Dq:ty) => {{
                        let xq = xs.into_dimensionality::<$Dq>().unwrap();
                        let yq = ys.into_dimensionality::<$Dq>().unwrap_or_else(|_| rank_panic("ys"));
                        Interp2D::interp_array(self, &xq, &yq).map(|a| a.into_dyn())
                    }};
                }
                q_dispatch!(xs, qr, call)
            }
            fn index_point(&self, i: usize, j: usize) -> (T, T, ArrayD<T>) {
                let (x, y, v) = Interp2D::index_point(self, i, j);
                (x, y, v.to_owned().into_dyn())
            }
            fn is_in_x_range(&self, x: T) -> bool {
                Interp2D::is_in_x_range(self, x)
            }
            fn is_in_y_range(&self, y: T) -> bool {
                Interp2D::is_in_y_range(self, y)
            }
            fn get_index_left_of(&self, x: T, y: T) -> (usize, usize) {
                Interp2D::get_index_left_of(self, x, y)
            }
        }
    };
}
impl_dyn2!(Ix2);
impl_dyn2!(Ix3);
impl_dyn2!(Ix4);
impl_dyn2!(Ix5);
impl_dyn2!(Ix6);
impl_dyn2!(IxDyn);

// ---------------------------------------------------------------- building
/// strategy selection for the rank-erased builders
#[derive(Clone, Debug)]
pub enum Strat1<T> {
    Linear { extrapolate: bool },
    Spline { bc: Bc, vl: Vec<T>, vr: Vec<T>, extrapolate: bool },
}
impl<T> Strat1<T> {
    pub fn name(&self) -> String {
        match self {
            Strat1::Linear { extrapolate } => format!("Linear(extrapolate={extrapolate})"),
            Strat1::Spline { bc, extrapolate, .. } => format!("CubicSpline({}, extrapolate={extrapolate})", bc.name()),
        }
    }
}

pub fn boundary_of<T: Copy, D: Dimension>(bc: &Bc, vl: &[T], vr: &[T], data_shape: &[usize]) -> BoundaryCondition<T, D> {
    use ndarray_interp::interp1d::cubic_spline::SingleBoundary;
    let single = |e: &End, v: T| match e {
        End::Nak => SingleBoundary::NotAKnot,
        End::Nat => SingleBoundary::Natural,
        End::Cla => SingleBoundary::Clamped,
        End::D1 => SingleBoundary::FirstDeriv(v),
        End::D2 => SingleBoundary::SecondDeriv(v),
    };
    match bc {
        Bc::NotAKnot => BoundaryCondition::NotAKnot,
        Bc::Natural => BoundaryCondition::Natural,
        Bc::Clamped => BoundaryCondition::Clamped,
        Bc::Periodic => BoundaryCondition::Periodic,
        Bc::Individual(rows) => {
            let mut shape = data_shape.to_vec();
            shape[0] = 1;
            let v: Vec<RowBoundary<T>> = rows
                .iter()
                .enumerate()
                .map(|(j, r)| match r {
                    Row::Plain(End::Nak) => RowBoundary::NotAKnot,
                    Row::Plain(End::Nat) => RowBoundary::Natural,
                    Row::Plain(End::Cla) => RowBoundary::Clamped,
                    Row::Plain(e) => RowBoundary::Mixed { left: single(e, vl[j]), right: single(e, vr[j]) },
                    Row::Mixed(l, r) => RowBoundary::Mixed { left: single(l, vl[j]), right: single(r, vr[j]) },
                })
                .collect();
            let arr = ArrayD::from_shape_vec(IxDyn(&shape), v).unwrap();
            BoundaryCondition::Individual(arr.into_dimensionality::<D>().unwrap())
        }
    }
}

/// Build the real `Interp1D` over the given storage. `dynamic`: keep the data as IxDyn instead of the
/// static dimension type of its rank.
pub fn build_1d<'a, T, S, SX>(x: Option<ArrayBase<SX, Ix1>>, data: ArrayBase<S, IxDyn>, strat: &Strat1<T>, dynamic: bool) -> Result<Box<dyn Dyn1<T> + 'a>, BuilderError>
where
    T: SplineNum + 'static,
    S: Data<Elem = T> + 'a,
    SX: Data<Elem = T> + 'a,
{
    fn finish<'a, T, Sd, Sx, D, SB>(b: Interp1DBuilder<Sd, Sx, D, SB>) -> Result<Box<dyn Dyn1<T> + 'a>, BuilderError>
    where
        T: SplineNum + 'static,
        Sd: Data<Elem = T> + 'a,
        Sx: Data<Elem = T> + 'a,
        D: Dimension + ndarray::RemoveAxis + 'a,
        SB: Interp1DStrategyBuilder<Sd, Sx, D> + 'a,
        SB::FinishedStrat: 'a,
        Interp1D<Sd, Sx, D, SB::FinishedStrat>: Dyn1<T>,
    {
        b.build().map(|i| Box::new(i) as Box<dyn Dyn1<T> + 'a>)
    }
    macro_rules! go {
        ($D:ty) => {{
            let shape = data.shape().to_vec();
            let d = data.into_dimensionality::<$D>().unwrap();
            let b = Interp1DBuilder::new(d);
            match (strat, x) {
                (Strat1::Linear { extrapolate }, Some(x)) => finish(b.x(x).strategy(Linear::new().extrapolate(*extrapolate))),
                (Strat1::Linear { extrapolate }, None) => finish(b.strategy(Linear::new().extrapolate(*extrapolate))),
                (Strat1::Spline { bc, vl, vr, extrapolate }, Some(x)) => finish(b.x(x).strategy(CubicSpline::new().boundary(boundary_of::<T, $D>(bc, vl, vr, &shape)).extrapolate(*extrapolate))),
                (Strat1::Spline { bc, vl, vr, extrapolate }, None) => finish(b.strategy(CubicSpline::new().boundary(boundary_of::<T, $D>(bc, vl, vr, &shape)).extrapolate(*extrapolate))),
            }
        }};
    }
    if dynamic {
        return go!(IxDyn);
    }
    match data.ndim() {
        1 => go!(Ix1),
        2 => go!(Ix2),
        3 => go!(Ix3),
        4 => go!(Ix4),
        5 => go!(Ix5),
        6 => go!(Ix6),
        _ => go!(IxDyn),
    }
}

/// Build the real `Interp2D` (Bilinear) over the given storage.
pub fn build_2d<'a, T, S, SX, SY>(x: Option<ArrayBase<SX, Ix1>>, y: Option<ArrayBase<SY, Ix1>>, data: ArrayBase<S, IxDyn>, extrapolate: bool, dynamic: bool) -> Result<Box<dyn Dyn2<T> + 'a>, BuilderError>
where
    T: SplineNum + 'static,
    S: Data<Elem = T> + 'a,
    SX: Data<Elem = T> + 'a,
    SY: Data<Elem = T> + 'a,
{
    fn finish<'a, T, Sd, Sx, Sy, D, SB>(b: Interp2DBuilder<Sd, Sx, Sy, D, SB>) -> Result<Box<dyn Dyn2<T> + 'a>, BuilderError>
    where
        T: SplineNum + 'static,
        Sd: Data<Elem = T> + 'a,
        Sx: Data<Elem = T> + 'a,
        Sy: Data<Elem = T> + 'a,
        D: Dimension + ndarray::RemoveAxis + 'a,
        D::Smaller: ndarray::RemoveAxis,
        SB: Interp2DStrategyBuilder<Sd, Sx, Sy, D> + 'a,
        SB::FinishedStrat: 'a,
        Interp2D<Sd, Sx, Sy, D, SB::FinishedStrat>: Dyn2<T>,
    {
        b.build().map(|i| Box::new(i) as Box<dyn Dyn2<T> + 'a>)
    }
    macro_rules! go {
        ($D:ty) => {{
            let d = data.into_dimensionality::<$D>().unwrap();
            let b = Interp2DBuilder::new(d).strategy(Bilinear::new().extrapolate(extrapolate));
            match (x, y) {
                (Some(x), Some(y)) => finish(b.x(x).y(y)),
                (Some(x), None) => finish(b.x(x)),
                (None, Some(y)) => finish(b.y(y)),
                (None, None) => finish(b),
            }
        }};
    }
    if dynamic {
        return go!(IxDyn);
    }
    match data.ndim() {
        2 => go!(Ix2),
        3 => go!(Ix3),
        4 => go!(Ix4),
        5 => go!(Ix5),
        6 => go!(Ix6),
        _ => go!(IxDyn),
    }
}

/// convenience: owned storage
pub fn arr1<T: Clone>(v: &[T]) -> Array1<T> {
    Array1::from(v.to_vec())
}
pub fn arrd<T: Clone>(shape: &[usize], v: &[T]) -> ArrayD<T> {
    ArrayD::from_shape_vec(IxDyn(shape), v.to_vec()).unwrap()
}
pub fn flat<T: Copy, D: Dimension>(a: &Array<T, D>) -> Vec<T> {
    a.iter().copied().collect()
}
pub fn err_kind_i(e: &InterpolateError) -> &'static str {
    match e {
        InterpolateError::OutOfBounds(_) => "OutOfBounds",
    }
}
pub fn err_kind_b(e: &BuilderError) -> &'static str {
    match e {
        BuilderError::NotEnoughData(_) => "NotEnoughData",
        BuilderError::Monotonic(_) => "Monotonic",
        BuilderError::ShapeError(_) => "ShapeError",
        BuilderError::ValueError(_) => "ValueError",
    }
}

/// element types of the Linear / Bilinear strategies (weaker than SplineNum: covers i32, i64)
pub trait LinNum: num_traits::Num + PartialOrd + num_traits::NumCast + Copy + Debug + std::ops::Sub + Send + 'static {}
impl<T: num_traits::Num + PartialOrd + num_traits::NumCast + Copy + Debug + std::ops::Sub + Send + 'static> LinNum for T {}

/// Linear interpolator (extrapolating) over the given data storage, for any Linear-capable element type
pub fn build_linear<'a, T: LinNum, S: Data<Elem = T> + 'a>(x: Array1<T>, data: ArrayBase<S, IxDyn>, dynamic: bool) -> Result<Box<dyn Dyn1<T> + 'a>, BuilderError> {
    macro_rules! go {
        ($D:ty) => {{
            let d = data.into_dimensionality::<$D>().unwrap();
            Interp1DBuilder::new(d).x(x).strategy(Linear::new().extrapolate(true)).build().map(|i| Box::new(i) as Box<dyn Dyn1<T> + 'a>)
        }};
    }
    if dynamic {
        return go!(IxDyn);
    }
    match data.ndim() {
        1 => go!(Ix1),
        2 => go!(Ix2),
        3 => go!(Ix3),
        4 => go!(Ix4),
        5 => go!(Ix5),
        6 => go!(Ix6),
        _ => go!(IxDyn),
    }
}
/// Bilinear interpolator (extrapolating) over the given data storage
pub fn build_bilinear<'a, T: LinNum, S: Data<Elem = T> + 'a>(x: Array1<T>, y: Array1<T>, data: ArrayBase<S, IxDyn>, dynamic: bool) -> Result<Box<dyn Dyn2<T> + 'a>, BuilderError> {
    macro_rules! go {
        ($D:ty) => {{
            let d = data.into_dimensionality::<$D>().unwrap();
            Interp2DBuilder::new(d).x(x).y(y).strategy(Bilinear::new().extrapolate(true)).build().map(|i| Box::new(i) as Box<dyn Dyn2<T> + 'a>)
        }};
    }
    if dynamic {
        return go!(IxDyn);
    }
    match data.ndim() {
        2 => go!(Ix2),
        3 => go!(Ix3),
        4 => go!(Ix4),
        5 => go!(Ix5),
        6 => go!(Ix6),
        _ => go!(IxDyn),
    }
}
