//! C12 (engine S part): monotonic_prop classifies every vector correctly and never calls NaN data rising.
//! Mode O, every element an unconstrained IEEE double: the explored paths are exactly the sequences of
//! consecutive-pair relations (<, =, >, unordered) the state machine distinguishes; per path z3 proves that
//! the returned class is the one defined by the pair relations (oracle written in SMT). Lengths up to 13.
use ndarray::Array1;
use ndarray_interp::vector_extensions::{Monotonic, VectorExtensions};

use crate::common::Args;
use crate::engine::core::{explore, silence_panics, with_ctx, ExploreCfg, Mode, Sym};
use crate::engine::json::Json;
use crate::engine::report::{par_run, Chk, Report, Verdict};

fn class(m: &Monotonic) -> (u8, bool) {
    match m {
        Monotonic::NotMonotonic => (0, false),
        Monotonic::Rising { strict } => (1, *strict),
        Monotonic::Falling { strict } => (2, *strict),
    }
}
fn native_class(a: &[f64]) -> Result<(u8, bool), String> {
    silence_panics();
    let arr = Array1::from(a.to_vec());
    std::panic::catch_unwind(|| class(&arr.monotonic_prop())).map_err(|_| "panic".into())
}
fn spec_native(a: &[f64]) -> (u8, bool) {
    if a.len() < 2 {
        return (0, false);
    }
    let (mut lt, mut eq, mut gt, mut un) = (0, 0, 0, 0);
    for w in a.windows(2) {
        if w[0] < w[1] {
            lt += 1
        } else if w[0] == w[1] {
            eq += 1
        } else if w[0] > w[1] {
            gt += 1
        } else {
            un += 1
        }
    }
    if un > 0 {
        (0, false)
    } else if gt == 0 && lt > 0 {
        (1, eq == 0)
    } else if lt == 0 && gt > 0 {
        (2, eq == 0)
    } else {
        (0, false)
    }
}

/// background of a long vector in which only a window of consecutive elements is symbolic
#[derive(Clone, Copy, Debug, PartialEq)]
enum Bg {
    /// every element an unconstrained IEEE double
    None,
    /// concrete strictly rising / strictly falling / rising with ties background, symbolic window [pos, pos+width)
    Rising(usize, usize),
    Falling(usize, usize),
    RisingTies(usize, usize),
}

/// (length, share index, share count, background): each worker re-explores (cheap, no solver) and decides its share of paths
fn check(item: &(usize, usize, usize, Bg)) -> Report {
    let (n, share, shares, bg) = *item;
    with_ctx(|c| c.reset_all());
    with_ctx(|c| c.mode = Mode::O);
    let mut chk = Chk::new(Mode::O, 20_000);
    chk.begin_config(&format!("monotonic_prop, length {n}, path share {share}/{shares}, {bg:?}"));
    let x: Vec<Sym> = (0..n)
        .map(|i| match bg {
            Bg::None => Sym::var(&format!("x{i}")),
            Bg::Rising(p, w) | Bg::Falling(p, w) | Bg::RisingTies(p, w) if i >= p && i < p + w => Sym::var(&format!("x{i}")),
            Bg::Rising(..) => Sym::int(3 * i as i128 - 7),
            Bg::Falling(..) => Sym::int(100 - 2 * i as i128),
            Bg::RisingTies(..) => Sym::int(((i + 1) / 2) as i128),
        })
        .collect();
    let mut ecfg = ExploreCfg::new(Mode::O, 1);
    ecfg.prune = false; // relations of different consecutive pairs are independent: the solver filters below
    ecfg.max_paths = 400_000;
    ecfg.max_seconds = 3600;
    let (paths, st) = explore(&ecfg, || class(&Array1::from(x.clone()).monotonic_prop()));
    if share == 0 {
        chk.add_explore_stats(paths.len(), &st);
    }
    let all_vars: Vec<String> = with_ctx(|c| c.var_names.clone());
    for v in &all_vars {
        chk.term(Sym::var(v));
    }
    // the definition, over the pair relations
    let pairs: Vec<(String, String)> = (0..n.saturating_sub(1)).map(|i| (chk.term(x[i]), chk.term(x[i + 1]))).collect();
    let all = |f: &dyn Fn(&(String, String)) -> String| format!("(and true {})", pairs.iter().map(|p| f(p)).collect::<Vec<_>>().join(" "));
    let any = |f: &dyn Fn(&(String, String)) -> String| format!("(or false {})", pairs.iter().map(|p| f(p)).collect::<Vec<_>>().join(" "));
    let lt = |p: &(String, String)| format!("(fp.lt {} {})", p.0, p.1);
    let gt = |p: &(String, String)| format!("(fp.gt {} {})", p.0, p.1);
    let le = |p: &(String, String)| format!("(fp.leq {} {})", p.0, p.1);
    let ge = |p: &(String, String)| format!("(fp.geq {} {})", p.0, p.1);
    let eq = |p: &(String, String)| format!("(fp.eq {} {})", p.0, p.1);
    let def = |c: (u8, bool)| -> String {
        if n < 2 {
            return format!("{}", c == (0, false));
        }
        match c {
            (1, true) => all(&lt),
            (1, false) => format!("(and {} {} {})", all(&le), any(&eq), any(&lt)),
            (2, true) => all(&gt),
            (2, false) => format!("(and {} {} {})", all(&ge), any(&eq), any(&gt)),
            _ => format!("(not (or {} {} (and {} {} {}) (and {} {} {})))", all(&lt), all(&gt), all(&le), any(&eq), any(&lt), all(&ge), any(&eq), any(&gt)),
        }
    };
    let nan_free = format!("(and true {})", (0..n).map(|i| format!("(not (fp.isNaN {}))", chk.term(x[i]))).collect::<Vec<_>>().join(" "));
    let mut classes_seen = std::collections::BTreeSet::new();
    for (pi, p) in paths.iter().enumerate() {
        if pi % shares != share {
            continue;
        }
        let pcs = chk.pc(&p.pc);
        match &p.result {
            Ok(c) => {
                classes_seen.insert(*c);
                // NaN-free vectors: exactly the defined class; vectors with NaN: never Rising
                let mut a = pcs.clone();
                a.push(format!("(not (and (=> {nan_free} {}) (=> (not {nan_free}) {})))", def(*c), c.0 != 1));
                if let Verdict::Cex(vals) = chk.must_unsat("classification", &format!("path {pi}: returned class {:?}", c), &a, &all_vars) {
                    let m = crate::c05::model_f64(&vals);
                    let xs: Vec<f64> = (0..n).map(|k| x[k].konst().map(|r| r.to_f64()).unwrap_or_else(|| *m.get(&format!("x{k}")).unwrap_or(&0.0))).collect();
                    let nat = native_class(&xs);
                    let has_nan = xs.iter().any(|v| v.is_nan());
                    let bad = match &nat {
                        Ok(c) => {
                            if has_nan {
                                c.0 == 1
                            } else {
                                *c != spec_native(&xs)
                            }
                        }
                        Err(_) => true,
                    };
                    chk.finding(&format!("C12:misclassified:{}", if has_nan { "NaN-data" } else { "NaN-free" }), &format!("length {n}: a vector is classified {:?}, contradicting the definition", c), Json::obj().with("vector", format!("{xs:?}")).with("native_class", format!("{nat:?}")).with("definition", format!("{:?}", spec_native(&xs))), Some(bad));
                }
            }
            Err(msg) => {
                let (ans, vals) = chk.model(&pcs, &all_vars);
                if matches!(ans, crate::engine::smt::Answer::Sat) || n == 0 {
                    let m = crate::c05::model_f64(&vals);
                    let xs: Vec<f64> = (0..n).map(|k| x[k].konst().map(|r| r.to_f64()).unwrap_or_else(|| *m.get(&format!("x{k}")).unwrap_or(&0.0))).collect();
                    chk.finding("C12:panic", &format!("length {n}: monotonic_prop panics: {msg}"), Json::obj().with("vector", format!("{xs:?}")), Some(native_class(&xs).is_err()));
                }
            }
        }
    }
    if share == 0 && n >= 3 && bg == Bg::None {
        // vacuity: all five classes occur among the paths; canary: a wrong definition (strict for non-strict) is refuted
        let (all_paths_classes, _) = (paths.iter().filter_map(|p| p.result.as_ref().ok()).collect::<std::collections::BTreeSet<_>>(), 0);
        chk.rep.witnesses_expected += 5;
        chk.rep.witnesses_found += all_paths_classes.len().min(5) as u64;
        if all_paths_classes.len() < 5 {
            chk.rep.errors.push(format!("length {n}: only classes {:?} occur", all_paths_classes));
        }
        if let Some(p) = paths.iter().find(|p| p.result == Ok((1, false))) {
            let mut a = chk.pc(&p.pc);
            a.push(format!("(not {})", def((1, true))));
            chk.canary("Rising{strict:false} claimed to mean strictly rising", &a);
        }
    }
    let _ = classes_seen;
    chk.rep
}

pub fn run(args: &Args) -> Report {
    let nmax = if args.thorough() { 13 } else { 10 };
    let mut items = vec![];
    for n in 0..=nmax {
        let shares = if n >= 11 { 16 } else if n >= 8 { 8 } else { 1 };
        for s in 0..shares {
            items.push((n, s, shares, Bg::None));
        }
    }
    // long vectors (block-wise or vectorised scans only go wrong beyond a block): concrete rising / falling / tied
    // backgrounds with a window of 3 unconstrained IEEE elements at every position
    let longs: &[usize] = if args.thorough() { &[17, 18, 33, 34, 65, 66, 129] } else { &[17, 18, 33, 34, 65] };
    for &n in longs {
        for p in 0..n - 2 {
            let bg = match (p + n) % 3 {
                0 => Bg::Rising(p, 3),
                1 => Bg::Falling(p, 3),
                _ => Bg::RisingTies(p, 3),
            };
            items.push((n, 0, 1, bg));
            if n <= 34 {
                items.push((n, 0, 1, Bg::Rising(p, 3)));
            }
        }
    }
    let mut rep = par_run(items, args.threads, check);
    rep.functions.insert("vector_extensions::VectorExtensions::monotonic_prop".into());
    rep.functions.insert("vector_extensions::MonotonicState::update".into());
    rep.functions.insert("vector_extensions::MonotonicState::finish".into());
    rep.bounds.push(format!("engine S: vector length 0..{nmax}, every element an unconstrained IEEE double (NaN at any position is a model); the explored paths are the sequences of consecutive-pair relations the state machine distinguishes"));
    rep.bounds.push(format!("engine S, long vectors: lengths {longs:?}, a window of 3 consecutive unconstrained IEEE elements at every position of a concrete strictly rising / strictly falling / rising-with-ties background"));
    rep.outside.push("lengths above the bound; element types other than f64 in engine S (f32, i32, i64 and strided / reversed views are covered by the engine K harnesses)".into());
    rep.assumptions.insert("mode O: comparisons bit-precise IEEE".into());
    rep
}
