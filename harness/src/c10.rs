//! C10: build() accepts exactly the valid inputs and reports the rest as BuilderError; constructing and building
//! never panics. Mode O: the structural cases (data rank static / dynamic incl. too small, lengths, axis
//! lengths, boundary-array shapes) are enumerated; every axis value, data value and periodic end row is an
//! unconstrained IEEE value, so ties, swaps and NaN at any position arise as solver models. The oracle is
//! written directly in SMT.
use std::collections::BTreeMap;

use ndarray::{Array1, ArrayD, Dimension, Ix1, Ix2, Ix3, IxDyn, RemoveAxis};
use ndarray_interp::interp1d::cubic_spline::{BoundaryCondition, CubicSpline, RowBoundary, SplineNum};
use ndarray_interp::interp1d::{Interp1DBuilder, Linear};
use ndarray_interp::interp2d::{Bilinear, Interp2DBuilder};
use ndarray_interp::BuilderError;

use crate::api::err_kind_b;
use crate::common::Args;
use crate::engine::core::{explore, silence_panics, with_ctx, ExploreCfg, Mode, Sym};
use crate::engine::json::Json;
use crate::engine::report::{par_run, Chk, Report, Verdict};
use crate::engine::smt::Answer;

#[derive(Clone, Debug, PartialEq)]
pub enum Strat {
    Linear,
    /// whole-data-set spline boundary
    SplineNak,
    SplinePeriodic,
    /// Individual boundary array of the given shape (all entries Natural)
    SplineIndividual(Vec<usize>),
    Bilinear,
}
impl Strat {
    fn min(&self) -> usize {
        match self {
            Strat::Linear | Strat::Bilinear => 2,
            _ => 3,
        }
    }
}
#[derive(Clone, Debug)]
pub struct Cfg {
    pub strat: Strat,
    pub shape: Vec<usize>,
    pub dynamic: bool,
    /// explicit axis lengths (None = default index axis)
    pub xlen: Option<usize>,
    pub ylen: Option<usize>,
    /// long axes: only the elements [pos, pos + 3) of the x (false) / y (true) axis are unconstrained IEEE values, the
    /// others form a concrete strictly increasing background
    pub window: Option<(bool, usize)>,
    pub timeout_ms: u64,
}
impl Cfg {
    pub fn name(&self) -> String {
        format!("{:?} data{:?}{} x={:?}{}{}", self.strat, self.shape, if self.dynamic { "(IxDyn)" } else { "" }, self.xlen, if self.strat == Strat::Bilinear { format!(" y={:?}", self.ylen) } else { String::new() }, self.window.map(|(y, p)| format!(" symbolic window {}[{p}..{}] in a concrete increasing axis", if y { "y" } else { "x" }, p + 3)).unwrap_or_default())
    }
    fn two_d(&self) -> bool {
        self.strat == Strat::Bilinear
    }
}

fn kind_of(r: Result<(), BuilderError>) -> Result<(), String> {
    r.map_err(|e| err_kind_b(&e).to_string())
}
/// construct the builder and build, at any scalar type, through the public API only
pub fn try_build<T: SplineNum + 'static>(cfg: &Cfg, x: &[T], y: &[T], data: &[T]) -> Result<(), String> {
    let arr = ArrayD::from_shape_vec(IxDyn(&cfg.shape), data.to_vec()).unwrap();
    macro_rules! one_d {
        ($D:ty) => {{
            let d = arr.into_dimensionality::<$D>().unwrap();
            let b = Interp1DBuilder::new(d);
            match (&cfg.strat, cfg.xlen) {
                (Strat::Linear, Some(_)) => kind_of(b.x(Array1::from(x.to_vec())).strategy(Linear::new()).build().map(|_| ())),
                (Strat::Linear, None) => kind_of(b.strategy(Linear::new()).build().map(|_| ())),
                (s, xl) => {
                    let bc: BoundaryCondition<T, $D> = match s {
                        Strat::SplineNak => BoundaryCondition::NotAKnot,
                        Strat::SplinePeriodic => BoundaryCondition::Periodic,
                        Strat::SplineIndividual(sh) => {
                            let n: usize = sh.iter().product();
                            let a = ArrayD::from_shape_vec(IxDyn(sh), vec![RowBoundary::<T>::Natural; n]).unwrap();
                            match a.into_dimensionality::<$D>() {
                                Ok(a) => BoundaryCondition::Individual(a),
                                Err(_) => panic!("harness misuse: boundary array rank differs from a static data rank"),
                            }
                        }
                        _ => unreachable!(),
                    };
                    let st = CubicSpline::new().boundary(bc);
                    match xl {
                        Some(_) => kind_of(b.x(Array1::from(x.to_vec())).strategy(st).build().map(|_| ())),
                        None => kind_of(b.strategy(st).build().map(|_| ())),
                    }
                }
            }
        }};
    }
    macro_rules! two_d {
        ($D:ty) => {{
            let d = arr.into_dimensionality::<$D>().unwrap();
            let b = Interp2DBuilder::new(d).strategy(Bilinear::new());
            match (cfg.xlen, cfg.ylen) {
                (Some(_), Some(_)) => kind_of(b.x(Array1::from(x.to_vec())).y(Array1::from(y.to_vec())).build().map(|_| ())),
                (Some(_), None) => kind_of(b.x(Array1::from(x.to_vec())).build().map(|_| ())),
                (None, Some(_)) => kind_of(b.y(Array1::from(y.to_vec())).build().map(|_| ())),
                (None, None) => kind_of(b.build().map(|_| ())),
            }
        }};
    }
    if cfg.two_d() {
        if cfg.dynamic {
            return two_d!(IxDyn);
        }
        match cfg.shape.len() {
            2 => two_d!(Ix2),
            3 => two_d!(Ix3),
            _ => two_d!(IxDyn),
        }
    } else {
        if cfg.dynamic {
            return one_d!(IxDyn);
        }
        match cfg.shape.len() {
            1 => one_d!(Ix1),
            2 => one_d!(Ix2),
            3 => one_d!(Ix3),
            _ => one_d!(IxDyn),
        }
    }
}
fn _bounds<D: Dimension + RemoveAxis>() {}

struct Oracle {
    /// concrete requirement flags
    rank_ok: bool,
    len_ok: bool,
    xlen_ok: bool,
    bshape_ok: bool,
    /// SMT texts over the symbols
    strict: String,
    periodic: String,
}
fn oracle(cfg: &Cfg, chk: &mut Chk, x: &[Sym], y: &[Sym], data: &[Sym]) -> Oracle {
    let need = if cfg.two_d() { 2 } else { 1 };
    let rank_ok = cfg.shape.len() >= need;
    let len = |k: usize| cfg.shape.get(k).copied().unwrap_or(0);
    let min = cfg.strat.min();
    let len_ok = rank_ok && len(0) >= min && (!cfg.two_d() || len(1) >= min);
    let xlen_ok = cfg.xlen.map(|l| l == len(0)).unwrap_or(true) && (!cfg.two_d() || cfg.ylen.map(|l| l == len(1)).unwrap_or(true));
    let bshape_ok = match &cfg.strat {
        Strat::SplineIndividual(sh) => {
            let mut want = cfg.shape.clone();
            if !want.is_empty() {
                want[0] = 1;
            }
            *sh == want
        }
        _ => true,
    };
    let strict_of = |chk: &mut Chk, ax: &[Sym], explicit: Option<usize>, dlen: usize| -> String {
        match explicit {
            Some(l) => {
                if l < 2 {
                    "false".into()
                } else {
                    format!("(and true {})", (0..l - 1).map(|i| format!("(fp.lt {} {})", chk.term(ax[i]), chk.term(ax[i + 1]))).collect::<Vec<_>>().join(" "))
                }
            }
            None => (if dlen >= 2 { "true" } else { "false" }).into(),
        }
    };
    let sx = strict_of(chk, x, cfg.xlen, len(0));
    let strict = if cfg.two_d() { format!("(and {sx} {})", strict_of(chk, y, cfg.ylen, len(1))) } else { sx };
    let periodic = if cfg.strat == Strat::SplinePeriodic && rank_ok && len(0) >= 1 {
        let lanes: usize = cfg.shape[1..].iter().product();
        let n = len(0);
        format!("(and true {})", (0..lanes).map(|j| format!("(fp.eq {} {})", chk.term(data[j]), chk.term(data[(n - 1) * lanes + j]))).collect::<Vec<_>>().join(" "))
    } else {
        "true".into()
    };
    Oracle { rank_ok, len_ok, xlen_ok, bshape_ok, strict, periodic }
}

fn native_kind(cfg: &Cfg, m: &BTreeMap<String, f64>) -> String {
    let g = |p: &str, n: usize| -> Vec<f64> { (0..n).map(|i| *m.get(&format!("{p}{i}")).unwrap_or(&0.0)).collect() };
    let total: usize = cfg.shape.iter().product();
    let (x, y, d) = (g("x", cfg.xlen.unwrap_or(0)), g("y", cfg.ylen.unwrap_or(0)), g("d", total));
    silence_panics();
    match std::panic::catch_unwind(|| try_build(cfg, &x, &y, &d)) {
        Ok(Ok(())) => "Ok".into(),
        Ok(Err(k)) => format!("Err({k})"),
        Err(_) => "panic".into(),
    }
}
/// the oracle evaluated natively on a model
fn native_valid(cfg: &Cfg, o: &Oracle, m: &BTreeMap<String, f64>) -> (bool, bool, bool) {
    let g = |p: &str, n: usize| -> Vec<f64> { (0..n).map(|i| *m.get(&format!("{p}{i}")).unwrap_or(&0.0)).collect() };
    let strict_ax = |ax: Vec<f64>, explicit: Option<usize>, dlen: usize| match explicit {
        Some(l) => l >= 2 && ax.windows(2).all(|w| w[0] < w[1]),
        None => dlen >= 2,
    };
    let len = |k: usize| cfg.shape.get(k).copied().unwrap_or(0);
    let strict = strict_ax(g("x", cfg.xlen.unwrap_or(0)), cfg.xlen, len(0)) && (!cfg.two_d() || strict_ax(g("y", cfg.ylen.unwrap_or(0)), cfg.ylen, len(1)));
    let periodic = if cfg.strat == Strat::SplinePeriodic && o.rank_ok && len(0) >= 1 {
        let lanes: usize = cfg.shape[1..].iter().product();
        let d = g("d", cfg.shape.iter().product());
        (0..lanes).all(|j| d[j] == d[(len(0) - 1) * lanes + j])
    } else {
        true
    };
    (o.rank_ok && o.len_ok && o.xlen_ok && o.bshape_ok && strict && periodic, strict, periodic)
}

fn check_config(cfg: &Cfg) -> Report {
    with_ctx(|c| c.reset_all());
    with_ctx(|c| c.mode = Mode::O);
    let mut chk = Chk::new(Mode::O, cfg.timeout_ms);
    chk.begin_config(&cfg.name());
    let total: usize = cfg.shape.iter().product();
    let ax = |p: &str, n: usize, is_y: bool| -> Vec<Sym> {
        (0..n)
            .map(|i| match cfg.window {
                Some((wy, pos)) if wy != is_y || i < pos || i >= pos + 3 => Sym::int(3 * i as i128 - 7),
                _ => Sym::var(&format!("{p}{i}")),
            })
            .collect()
    };
    let x: Vec<Sym> = ax("x", cfg.xlen.unwrap_or(0), false);
    let y: Vec<Sym> = ax("y", cfg.ylen.unwrap_or(0), true);
    // native replays read the axis from the model: the concrete background goes in as well
    let with_background = |mut m: BTreeMap<String, f64>| -> BTreeMap<String, f64> {
        for (p, a) in [("x", &x), ("y", &y)] {
            for (i, t) in a.iter().enumerate() {
                if let Some(r) = t.konst() {
                    m.insert(format!("{p}{i}"), r.to_f64());
                }
            }
        }
        m
    };
    let data: Vec<Sym> = (0..total).map(|i| Sym::var(&format!("d{i}"))).collect();
    let mut ecfg = ExploreCfg::new(Mode::O, 8);
    ecfg.timeout_ms = cfg.timeout_ms;
    let (paths, st) = explore(&ecfg, || try_build(cfg, &x, &y, &data));
    chk.add_explore_stats(paths.len(), &st);
    let all_vars: Vec<String> = with_ctx(|c| c.var_names.clone());
    for v in &all_vars {
        chk.term(Sym::var(v));
    }
    let o = oracle(cfg, &mut chk, &x, &y, &data);
    let concrete_ok = o.rank_ok && o.len_ok && o.xlen_ok && o.bshape_ok;
    let valid = format!("(and {} {} {})", concrete_ok, o.strict, o.periodic);
    let sclass = format!("{:?}", cfg.strat).split('(').next().unwrap().to_string();
    let mut n_ok = 0;
    for (pi, p) in paths.iter().enumerate() {
        let pcs = chk.pc(&p.pc);
        let (name, violated): (String, String) = match &p.result {
            Ok(Ok(())) => {
                n_ok += 1;
                ("Ok => inputs valid".into(), valid.clone())
            }
            Ok(Err(k)) => {
                let v = match k.as_str() {
                    "NotEnoughData" => format!("{}", !o.len_ok),
                    "Monotonic" => format!("(not {})", o.strict),
                    "ShapeError" => format!("{}", !o.rank_ok || !o.xlen_ok || !o.bshape_ok),
                    "ValueError" => format!("(not {})", o.periodic),
                    _ => "false".into(),
                };
                (format!("Err({k}) => that requirement is violated"), v)
            }
            Err(msg) => {
                // constructing and building never panics: the path is feasible (explored with pruning)
                let (ans, vals) = chk.model(&pcs, &all_vars);
                if matches!(ans, Answer::Sat) || all_vars.is_empty() {
                    let m = with_background(crate::c05::model_f64(&vals));
                    let nk = native_kind(cfg, &m);
                    let why = if !o.rank_ok { "rank-too-small" } else { "other" };
                    chk.finding(&format!("C10:panic:{}:{why}", if cfg.two_d() { "Interp2DBuilder" } else { "Interp1DBuilder" }), &format!("{}: constructing / building panics: {msg}", cfg.name()), Json::obj().with("config", cfg.name()).with("model", crate::c05::model_json(&m)).with("native_outcome", nk.as_str()).with("symbolic_panic", msg.as_str()), Some(nk == "panic"));
                }
                continue;
            }
        };
        let mut q = pcs.clone();
        q.push(format!("(not {violated})"));
        if let Verdict::Cex(vals) = chk.must_unsat(if name.starts_with("Ok") { "accepted=>valid" } else { "error-kind=>requirement-violated" }, &format!("path {pi}: {name}"), &q, &all_vars) {
            let m = with_background(crate::c05::model_f64(&vals));
            let nk = native_kind(cfg, &m);
            let (nvalid, _, _) = native_valid(cfg, &o, &m);
            let outcome = match &p.result {
                Ok(Ok(())) => "Ok".to_string(),
                Ok(Err(k)) => format!("Err({k})"),
                _ => String::new(),
            };
            // reproduced if the native outcome contradicts the oracle the same way
            let reproduced = if outcome == "Ok" { nk == "Ok" && !nvalid } else { nk == outcome };
            let key = if outcome == "Ok" { format!("C10:invalid-input-accepted:{sclass}") } else { format!("C10:wrong-error-kind:{sclass}:{outcome}") };
            chk.finding(&key, &format!("{}: {name} fails", cfg.name()), Json::obj().with("config", cfg.name()).with("model", crate::c05::model_json(&m)).with("native_outcome", nk.as_str()).with("native_inputs_valid", nvalid), Some(reproduced));
        }
    }
    // vacuity / completeness: when the structural requirements hold there must be an accepting path, and the
    // valid inputs are satisfiable
    if concrete_ok {
        chk.rep.witnesses_expected += 1;
        if n_ok > 0 {
            chk.rep.witnesses_found += 1;
        } else {
            chk.finding(&format!("C10:valid-input-never-accepted:{sclass}"), &format!("{}: no accepting path although the structural requirements hold", cfg.name()), Json::obj().with("config", cfg.name()), None);
        }
        // canary: the oracle with "non-decreasing" instead of "strictly increasing" must be refuted by some Ok/Err path
        if cfg.xlen.map(|l| l >= 2).unwrap_or(false) {
            let weak = format!("(and true {})", (0..cfg.xlen.unwrap() - 1).map(|i| format!("(fp.leq {} {})", chk.term(x[i]), chk.term(x[i + 1]))).collect::<Vec<_>>().join(" "));
            let mut fired = false;
            for p in &paths {
                if let Ok(Err(k)) = &p.result {
                    if k == "Monotonic" {
                        let mut q = chk.pc(&p.pc);
                        q.push(weak.clone());
                        if matches!(chk.feasible(&q), Answer::Sat) {
                            fired = true;
                            break;
                        }
                    }
                }
            }
            chk.rep.canaries_expected += 1;
            if fired {
                chk.rep.canaries_fired += 1;
            } else {
                chk.rep.errors.push(format!("{}: canary (a tie must be rejected as Monotonic) did not fire", cfg.name()));
            }
        }
    }
    chk.rep
}

pub fn configs(args: &Args) -> Vec<Cfg> {
    let thorough = args.thorough();
    let timeout_ms = 20_000;
    let mut v = vec![];
    let nmax_extra = if thorough { 3 } else { 2 };
    let full = true; // every combination also in the quick tier (the whole table costs a few seconds)
    // ---- 1-D decision table
    for strat in [Strat::Linear, Strat::SplineNak, Strat::SplinePeriodic] {
        let min = strat.min();
        for len in 0..=min + nmax_extra {
            for trailing in [vec![], vec![2]] {
                let mut shape = vec![len];
                shape.extend(&trailing);
                for dynamic in [false, true] {
                    let mut xl: Vec<Option<usize>> = vec![None, Some(len), Some(len + 1)];
                    if len >= 1 {
                        xl.push(Some(len - 1));
                    }
                    for xlen in xl {
                        v.push(Cfg { strat: strat.clone(), shape: shape.clone(), dynamic, xlen, ylen: None, window: None, timeout_ms });
                    }
                }
            }
        }
        // data of dynamic rank 0
        v.push(Cfg { strat: strat.clone(), shape: vec![], dynamic: true, xlen: None, ylen: None, window: None, timeout_ms });
        v.push(Cfg { strat: strat.clone(), shape: vec![], dynamic: true, xlen: Some(2), ylen: None, window: None, timeout_ms });
    }
    // per-lane boundary arrays: ok, wrong leading, wrong trailing, wrong rank (dynamic only), combined with other violations
    for (shape, dynamic) in [(vec![3, 2], false), (vec![4, 2], true), (vec![3], false), (vec![2, 2], false)] {
        let mut ok = shape.clone();
        ok[0] = 1;
        let mut variants = vec![ok.clone()];
        let mut lead = ok.clone();
        lead[0] = 2;
        variants.push(lead);
        if shape.len() >= 2 {
            let mut tr = ok.clone();
            tr[1] += 1;
            variants.push(tr);
            let mut tr0 = ok.clone();
            tr0[1] -= 1;
            variants.push(tr0);
        }
        if dynamic {
            variants.push(vec![1]);
            let mut more = ok.clone();
            more.push(1);
            variants.push(more);
        }
        for bs in variants {
            for xlen in [Some(shape[0]), Some(shape[0] + 1), None] {
                v.push(Cfg { strat: Strat::SplineIndividual(bs.clone()), shape: shape.clone(), dynamic, xlen, ylen: None, window: None, timeout_ms });
            }
        }
    }
    // ---- 2-D decision table, x and y independent
    let lens = if thorough { vec![0, 1, 2, 3, 4] } else { vec![0, 1, 2, 3] };
    for &nx in &lens {
        for &ny in &lens {
            for trailing in [vec![], vec![2]] {
                if !trailing.is_empty() && (nx, ny) != (2, 3) {
                    continue;
                }
                let mut shape = vec![nx, ny];
                shape.extend(&trailing);
                for dynamic in [false, true] {
                    let opts = |n: usize| -> Vec<Option<usize>> {
                        let mut o = vec![None, Some(n), Some(n + 1)];
                        if n >= 1 && full {
                            o.push(Some(n - 1));
                        }
                        o
                    };
                    for xlen in opts(nx) {
                        for ylen in opts(ny) {
                            v.push(Cfg { strat: Strat::Bilinear, shape: shape.clone(), dynamic, xlen, ylen, window: None, timeout_ms });
                        }
                    }
                }
            }
        }
    }
    // ---- long axes (a block-wise / vectorised monotonicity scan only goes wrong beyond a block): a window of three
    // unconstrained elements at every position of a concrete increasing axis
    for n in if thorough { vec![9usize, 10, 17, 18, 33, 34, 65] } else { vec![9usize, 10, 17, 18, 33] } {
        for pos in 0..n - 2 {
            let strat = [Strat::Linear, Strat::SplineNak, Strat::Linear][pos % 3].clone();
            v.push(Cfg { strat, shape: vec![n], dynamic: pos % 2 == 1, xlen: Some(n), ylen: None, window: Some((false, pos)), timeout_ms });
        }
    }
    for n in [9usize, 17] {
        for pos in 0..n - 2 {
            v.push(Cfg { strat: Strat::Bilinear, shape: vec![n, 2], dynamic: false, xlen: Some(n), ylen: None, window: Some((false, pos)), timeout_ms });
            v.push(Cfg { strat: Strat::Bilinear, shape: vec![2, n], dynamic: false, xlen: None, ylen: Some(n), window: Some((true, pos)), timeout_ms });
        }
    }
    // dynamic rank too small for 2-D
    for shape in [vec![], vec![3]] {
        v.push(Cfg { strat: Strat::Bilinear, shape: shape.clone(), dynamic: true, xlen: None, ylen: None, window: None, timeout_ms });
        v.push(Cfg { strat: Strat::Bilinear, shape, dynamic: true, xlen: Some(2), ylen: Some(2), window: None, timeout_ms });
    }
    v
}

pub fn run(args: &Args) -> Report {
    let mut rep = par_run(configs(args), args.threads, check_config);
    // constructors on data whose STATIC rank is too small (build() is not callable there, new() is)
    silence_panics();
    for (what, r) in [
        ("Interp1DBuilder::new(Ix0 data)", std::panic::catch_unwind(|| drop(Interp1DBuilder::new(ndarray::arr0(Sym::int(1)))))),
        ("Interp2DBuilder::new(Ix0 data)", std::panic::catch_unwind(|| drop(Interp2DBuilder::new(ndarray::arr0(Sym::int(1)))))),
        ("Interp2DBuilder::new(Ix1 data)", std::panic::catch_unwind(|| drop(Interp2DBuilder::new(ndarray::arr1(&[Sym::int(1), Sym::int(2)]))))),
    ] {
        rep.obligations += 1;
        if r.is_ok() {
            rep.discharged += 1;
            rep.trivial += 1;
            *rep.kinds.entry("constructor on statically too small rank does not panic (concrete)".into()).or_default() += 1;
        } else {
            rep.findings.push(crate::engine::report::Finding { key: "C10:panic:constructor:static-rank-too-small".into(), summary: format!("{what} panics"), replay: Json::obj().with("call", what), reproduced: Some(true) });
        }
    }
    for f in ["interp1d::Interp1DBuilder::new", "interp1d::Interp1DBuilder::x", "interp1d::Interp1DBuilder::strategy", "interp1d::Interp1DBuilder::build", "interp2d::Interp2DBuilder::new", "interp2d::Interp2DBuilder::x", "interp2d::Interp2DBuilder::y", "interp2d::Interp2DBuilder::strategy", "interp2d::Interp2DBuilder::build", "vector_extensions::VectorExtensions::monotonic_prop", "interp1d::strategies::cubic_spline::CubicSpline::calc_coefficients", "interp1d::strategies::cubic_spline::CubicSpline::solve_for_k"] {
        rep.functions.insert(f.to_string());
    }
    rep.bounds.push(format!("1-D: Linear (min 2), CubicSpline NotAKnot / Periodic (min 3), data length 0..min+{}, static and IxDyn data incl. dynamic rank 0, trailing () and (2); axis default / length n-1, n, n+1; per-lane boundary arrays with correct shape, wrong leading axis, wrong trailing axis, wrong (dynamic) rank, combined with axis-length violations", if args.thorough() { 3 } else { 2 }));
    rep.bounds.push(format!("2-D: Bilinear, grids {0}x{0}, x and y axes independently default / n / n+1{1}, static and IxDyn data incl. dynamic rank 0 and 1", if args.thorough() { "0..4" } else { "0..3" }, " / n-1"));
    rep.bounds.push("every axis element, data element and periodic end row an unconstrained IEEE double (NaN, ties, swaps at any position are models)".into());
    rep.outside.push("axis lengths above 5; boundary arrays with non-Natural entries (their values do not enter validation)".into());
    rep.assumptions.insert("mode O: comparisons bit-precise IEEE, arithmetic uninterpreted".into());
    rep
}
