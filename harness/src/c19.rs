//! C19: the unchecked cast of the rank-1 fast path only ever relabels identical types, and the fast path is
//! unobservable.
//!  (a) type identity: every instantiation (data dimension Ix1..Ix6, IxDyn) x (query dimension Ix0..Ix3, IxDyn
//!      of rank 1) x (owned, view, shared data storage; view, owned, shared query storage) x (f64, f32, i32,
//!      i64, Sym) x (Interp1D, Interp2D) is compiled and run with the hook enabled: `cast_unchecked` asserts
//!      type_name / size / alignment equality and counts casts; the counter must move exactly for static Ix1
//!      queries. This half is exhaustive enumeration of a finite configuration space, not solving.
//!  (b) unobservability (mode O, solver-decided where terms differ): for symbolic data and queries the fast
//!      path (Ix1), the general path on the same query as IxDyn of rank 1 and as a 1 x k Ix2 query give the
//!      same outcome and the same IEEE values.
use ndarray::{Array1, ArrayD, IxDyn};
use ndarray_interp::verif_hooks::cast_count;

use crate::api::{build_bilinear, build_linear, Dyn1, Dyn2, LinNum, QRank};
use crate::common::Args;
use crate::engine::core::{explore, silence_panics, with_ctx, ExploreCfg, Mode, Sym};
use crate::engine::json::Json;
use crate::engine::report::{par_run, Chk, Finding, Report, Verdict};
use crate::entry::{self, Ep, Scen};
use crate::layout::Layout;
use crate::prob::Kind;

#[derive(Clone, Copy, Debug, PartialEq)]
enum Store {
    Owned,
    View,
    Shared,
}
#[derive(Clone, Debug)]
struct Inst {
    two_d: bool,
    rank: usize,
    dynamic: bool,
    store: Store,
    elem: &'static str,
}
impl Inst {
    fn name(&self) -> String {
        format!("{} data {} {:?} storage elem {}", if self.two_d { "Interp2D" } else { "Interp1D" }, if self.dynamic { format!("IxDyn(rank {})", self.rank) } else { format!("Ix{}", self.rank) }, self.store, self.elem)
    }
}
fn num<T: LinNum>(v: usize) -> T {
    num_traits::cast::<usize, T>(v).unwrap()
}
/// query variants: (label, shape, rank kind, query storage, expected to take the fast path)
fn query_variants() -> Vec<(&'static str, Vec<usize>, QRank, Store, bool)> {
    vec![
        ("Ix0", vec![], QRank::Static, Store::View, false),
        ("Ix1 view", vec![2], QRank::Static, Store::View, true),
        ("Ix1 owned", vec![2], QRank::Static, Store::Owned, true),
        ("Ix1 shared", vec![2], QRank::Static, Store::Shared, true),
        ("Ix2", vec![1, 2], QRank::Static, Store::View, false),
        ("Ix3", vec![1, 2, 1], QRank::Static, Store::Owned, false),
        ("IxDyn rank 1 view", vec![2], QRank::Dyn, Store::View, false),
        ("IxDyn rank 1 shared", vec![2], QRank::Dyn, Store::Shared, false),
    ]
}

fn probe<T: LinNum + PartialEq>(inst: &Inst) -> Report {
    let mut rep = Report::default();
    rep.configs += 1;
    rep.config_names.push(inst.name());
    let axes = if inst.two_d { 2 } else { 1 };
    // shape (2, [3,] 1.., 2): last trailing axis 2 when there is one
    let mut shape = vec![2usize];
    if inst.two_d {
        shape.push(3);
    }
    while shape.len() < inst.rank {
        shape.push(if shape.len() + 1 == inst.rank { 2 } else { 1 });
    }
    let total: usize = shape.iter().product();
    let data: ArrayD<T> = ArrayD::from_shape_vec(IxDyn(&shape), (0..total).map(|i| num::<T>((i * 7 + 3) % 11)).collect()).unwrap();
    let x: Array1<T> = Array1::from((0..2).map(|i| num::<T>(i * 2)).collect::<Vec<_>>());
    let y: Array1<T> = Array1::from((0..3).map(|i| num::<T>(i * 3 + 1)).collect::<Vec<_>>());
    let lanes: usize = shape[axes..].iter().product();
    silence_panics();
    enum B<'a, T> {
        D1(Box<dyn Dyn1<T> + 'a>),
        D2(Box<dyn Dyn2<T> + 'a>),
    }
    let shared = data.clone().into_shared();
    let built = std::panic::catch_unwind(std::panic::AssertUnwindSafe(|| -> Result<B<'_, T>, String> {
        let e = |e: ndarray_interp::BuilderError| format!("{e:?}");
        if inst.two_d {
            match inst.store {
                Store::Owned => build_bilinear(x.clone(), y.clone(), data.clone(), inst.dynamic).map(B::D2).map_err(e),
                Store::View => build_bilinear(x.clone(), y.clone(), data.view(), inst.dynamic).map(B::D2).map_err(e),
                Store::Shared => build_bilinear(x.clone(), y.clone(), shared.clone(), inst.dynamic).map(B::D2).map_err(e),
            }
        } else {
            match inst.store {
                Store::Owned => build_linear(x.clone(), data.clone(), inst.dynamic).map(B::D1).map_err(e),
                Store::View => build_linear(x.clone(), data.view(), inst.dynamic).map(B::D1).map_err(e),
                Store::Shared => build_linear(x.clone(), shared.clone(), inst.dynamic).map(B::D1).map_err(e),
            }
        }
    }));
    let built = match built {
        Ok(Ok(b)) => b,
        other => {
            rep.errors.push(format!("{}: cannot build: {:?}", inst.name(), other.map(|r| r.map(|_| ()))));
            return rep;
        }
    };
    let mut reference: Option<Vec<T>> = None;
    for (label, qshape, qr, qstore, fast) in query_variants() {
        let nq: usize = qshape.iter().product();
        let qx: ArrayD<T> = ArrayD::from_shape_vec(IxDyn(&qshape), (0..nq).map(|k| num::<T>(k + 1)).collect()).unwrap();
        let qy: ArrayD<T> = ArrayD::from_shape_vec(IxDyn(&qshape), (0..nq).map(|k| num::<T>(2 + 3 * k)).collect()).unwrap();
        let before = cast_count();
        let r = std::panic::catch_unwind(std::panic::AssertUnwindSafe(|| match (&built, qstore) {
            (B::D1(i), Store::View) => i.interp_array(qx.view(), qr),
            (B::D1(i), Store::Owned) => i.interp_array_q_owned(qx.clone(), qr),
            (B::D1(i), Store::Shared) => i.interp_array_q_shared(qx.clone().into_shared(), qr),
            (B::D2(i), Store::View) => i.interp_array(qx.view(), qy.view(), qr),
            (B::D2(i), Store::Owned) => i.interp_array_q_owned(qx.clone(), qy.clone(), qr),
            (B::D2(i), Store::Shared) => i.interp_array_q_shared(qx.clone().into_shared(), qy.clone().into_shared(), qr),
        }));
        let delta = cast_count() - before;
        let expect = if fast { axes + 1 } else { 0 };
        rep.obligations += 1;
        *rep.kinds.entry("instantiation: cast only between identical types, counter moves exactly for static Ix1 queries".into()).or_default() += 1;
        let key_base = format!("{}:{}", if inst.two_d { "Interp2D" } else { "Interp1D" }, label.split(' ').next().unwrap());
        match r {
            Ok(Ok(out)) => {
                if delta != expect {
                    rep.findings.push(Finding { key: format!("C19:fast-path-selection:{key_base}"), summary: format!("{} query {label}: {delta} unchecked casts, expected {expect}", inst.name()), replay: Json::obj().with("instantiation", inst.name()).with("query", label), reproduced: Some(true) });
                    continue;
                }
                // fast path and general path on the same 2-element query agree (native values)
                if nq == 2 {
                    let vals: Vec<T> = out.iter().copied().collect();
                    match &reference {
                        None => reference = Some(vals),
                        Some(r0) => {
                            if r0.len() != vals.len() || r0.iter().zip(&vals).any(|(a, b)| a != b) {
                                rep.findings.push(Finding { key: format!("C19:fast-vs-general-differ-natively:{key_base}"), summary: format!("{} query {label}: result differs from the Ix1 fast path result", inst.name()), replay: Json::obj().with("instantiation", inst.name()).with("query", label).with("lanes", lanes), reproduced: Some(true) });
                                continue;
                            }
                        }
                    }
                }
                rep.discharged += 1;
                rep.trivial += 1;
                rep.syntactic_keys.insert(format!("{}|{label}", inst.name()));
            }
            Ok(Err(e)) => rep.errors.push(format!("{} query {label}: unexpected error {e:?}", inst.name())),
            Err(p) => {
                let msg = p.downcast_ref::<String>().cloned().or(p.downcast_ref::<&str>().map(|s| s.to_string())).unwrap_or_default();
                rep.findings.push(Finding { key: format!("C19:cast-between-different-types:{key_base}"), summary: format!("{} query {label}: panic inside the call: {msg}", inst.name()), replay: Json::obj().with("instantiation", inst.name()).with("query", label).with("panic", msg.as_str()), reproduced: Some(true) });
            }
        }
    }
    rep
}

fn run_inst(inst: &Inst) -> Report {
    match inst.elem {
        "f64" => probe::<f64>(inst),
        "f32" => probe::<f32>(inst),
        "i32" => probe::<i32>(inst),
        "i64" => probe::<i64>(inst),
        _ => {
            with_ctx(|c| {
                c.reset_all();
                c.mode = Mode::R;
            });
            // Sym with constant inputs: exact rational evaluation, no symbolic decisions
            crate::engine::core::run_concrete(Mode::R, || probe::<Sym>(inst)).unwrap_or_else(|e| {
                let mut r = Report::default();
                r.errors.push(format!("{}: {e}", inst.name()));
                r
            })
        }
    }
}

/// (b) unobservability with symbolic values
fn check_unobservable(base: &Scen) -> Report {
    with_ctx(|c| c.reset_all());
    with_ctx(|c| c.mode = Mode::O);
    let mut chk = Chk::new(Mode::O, 20_000);
    chk.begin_config(&format!("fast vs general path :: {}", base.name()));
    let k = base.qshape[0];
    let mut dynq = base.clone();
    dynq.qrank = QRank::Dyn;
    let mut two = base.clone();
    two.qshape = vec![1, k];
    two.lay_q = Layout::C; // the logical contents are the same; a reversed 1 x k layout would also reverse the unit axis
    let v = crate::c09::sym_vals(base, true, true);
    let mut ecfg = ExploreCfg::new(Mode::O, base.nx().max(base.ny()).max(2) - 1);
    ecfg.timeout_ms = 20_000;
    let (paths, st) = explore(&ecfg, || {
        for i in 0..base.nx() - 1 {
            Sym::assume_lt(v.x[i], v.x[i + 1]);
        }
        if base.kind.is_2d() {
            for i in 0..base.ny() - 1 {
                Sym::assume_lt(v.y[i], v.y[i + 1]);
            }
        }
        for q in v.qx.iter().chain(v.qy.iter()) {
            Sym::assume_not_nan(*q);
        }
        let mut out = vec![];
        for (s, ep) in [(base, Ep::Array), (&dynq, Ep::Array), (&two, Ep::Array), (base, Ep::ArrayInto), (&dynq, Ep::ArrayInto), (&two, Ep::ArrayInto)] {
            let before = cast_count();
            let r = entry::run(s, &v, &ep, None, None, &mut |i| Sym::var(&format!("poison{i}")), &mut |p, i| Sym::var(&format!("{p}{i}")));
            out.push((r, cast_count() - before));
        }
        out
    });
    chk.add_explore_stats(paths.len(), &st);
    let all_vars: Vec<String> = with_ctx(|c| c.var_names.clone());
    for n in &all_vars {
        chk.term(Sym::var(n));
    }
    let axes = base.axes();
    let mut n_ok = 0;
    for (pi, p) in paths.iter().enumerate() {
        if chk.rep.findings.iter().any(|f| f.reproduced == Some(true)) {
            break;
        }
        let pcs = chk.pc(&p.pc);
        let rows = match &p.result {
            Ok(r) => r,
            Err(m) => {
                if crate::c05::is_cast_fail(m) {
                    *chk.rep.cut_by_assumption.entry("C11: index guess of a non-NaN lookup argument is in range".into()).or_default() += 1;
                } else {
                    chk.finding("C19:panic", &format!("{}: {m}", base.name()), Json::obj().with("config", base.name()), None);
                }
                continue;
            }
        };
        // the fast path was really taken for the static Ix1 query and only there
        for (i, (r, casts)) in rows.iter().enumerate() {
            if r.is_ok() {
                let expect = if i % 3 == 0 { axes + 1 } else { 0 };
                if *casts != expect {
                    chk.finding("C19:fast-path-selection:symbolic", &format!("{}: call {i}: {casts} unchecked casts, expected {expect}", base.name()), Json::obj().with("config", base.name()), Some(true));
                }
            }
        }
        for group in [0usize, 3] {
            let fast = &rows[group].0;
            for alt in [group + 1, group + 2] {
                let other = &rows[alt].0;
                match (fast, other) {
                    (Ok(a), Ok(b)) => {
                        n_ok += 1;
                        for i in 0..a.values.len() {
                            if a.values[i].0 == b.values[i].0 {
                                chk.trivially_holds("fast=general");
                                continue;
                            }
                            let mut q = pcs.clone();
                            q.push(format!("(not (= {} {}))", chk.term(a.values[i]), chk.term(b.values[i])));
                            if chk.rep.findings.iter().any(|f| f.reproduced == Some(true)) {
                                break;
                            }
                            if let Verdict::Cex(vals) = chk.must_unsat("fast=general", &format!("path {pi} element {i}"), &q, &all_vars) {
                                // native replay: the solver's model first (IEEE-refined when the abstraction admitted it: e.g. +0.0 next
                                // to -0.0, the only distinct values that compare equal), then generic values
                                let m = crate::c05::model_f64(&vals);
                                let s2 = if alt % 3 == 1 { &dynq } else { &two };
                                let ep = if group == 0 { Ep::Array } else { Ep::ArrayInto };
                                let mut shown = (Err("not run".to_string()), Err("not run".to_string()));
                                let mut differs = false;
                                for nv in [crate::c09::native_from_sym(&v, &m, 5), entry::native_vals(base, 5)] {
                                    let (x, y) = (entry::native_run(base, &nv, &ep, None, None), entry::native_run(s2, &nv, &ep, None, None));
                                    differs = match (&x, &y) {
                                        (Ok(x), Ok(y)) => x.values.iter().zip(&y.values).any(|(p, q)| p.to_bits() != q.to_bits() && !(p.is_nan() && q.is_nan())),
                                        (Err(a), Err(b)) => a != b,
                                        _ => true,
                                    };
                                    shown = (x, y);
                                    if differs {
                                        break;
                                    }
                                }
                                let (x, y) = shown;
                                chk.finding(&format!("C19:fast-path-observable:{}", base.kind.name()), &format!("{}: fast path and general path return different values (element {i})", base.name()), Json::obj().with("config", base.name()).with("native_fast", format!("{x:?}")).with("native_general", format!("{y:?}")), Some(differs));
                            }
                        }
                    }
                    (a, b) => {
                        let k = |r: &Result<entry::Out<Sym>, String>| r.as_ref().map(|_| "Ok".to_string()).unwrap_or_else(|e| e.clone());
                        if k(a) != k(b) {
                            chk.finding(&format!("C19:fast-path-observable-outcome:{}", base.kind.name()), &format!("{}: fast path {} vs general path {}", base.name(), k(a), k(b)), Json::obj().with("config", base.name()), None);
                        } else {
                            chk.trivially_holds("fast=general outcome");
                        }
                    }
                }
            }
        }
    }
    chk.rep.witnesses_expected += 1;
    if n_ok > 0 {
        chk.rep.witnesses_found += 1;
    } else {
        chk.rep.errors.push(format!("{}: no path where both answered", base.name()));
    }
    chk.rep
}

enum Item {
    Inst(Inst),
    Unobs(Scen),
}

pub fn run(args: &Args) -> Report {
    let mut items = vec![];
    for two_d in [false, true] {
        let ranks: Vec<(usize, bool)> = if two_d { vec![(2, false), (3, false), (4, false), (5, false), (6, false), (3, true), (2, true)] } else { vec![(1, false), (2, false), (3, false), (4, false), (5, false), (6, false), (2, true), (1, true)] };
        for (rank, dynamic) in ranks {
            for store in [Store::Owned, Store::View, Store::Shared] {
                for elem in ["f64", "f32", "i32", "i64", "Sym"] {
                    items.push(Item::Inst(Inst { two_d, rank, dynamic, store, elem }));
                }
            }
        }
    }
    let mk = |kind: Kind, shape: Vec<usize>, dynamic: bool, k: usize, extrapolate: bool| Scen { kind, shape, dynamic, extrapolate, default_axes: false, lay_data: Layout::C, lay_x: Layout::C, lay_y: Layout::C, lay_q: Layout::C, lay_buf: Layout::C, qshape: vec![k], qrank: QRank::Static };
    let mut scens = vec![mk(Kind::Linear, vec![2], false, 2, false), mk(Kind::Linear, vec![3, 2], false, 2, true), mk(Kind::Linear, vec![2, 2], true, 1, false), mk(Kind::Bilinear, vec![2, 2], false, 2, true), mk(Kind::Bilinear, vec![2, 2, 2], true, 1, false), mk(Kind::Spline(crate::spline::Bc::NotAKnot), vec![3], false, 2, false)];
    if args.thorough() {
        scens.extend([mk(Kind::Linear, vec![3, 1, 2], false, 3, false), mk(Kind::Bilinear, vec![2, 3, 2], false, 2, false), mk(Kind::Spline(crate::spline::Bc::Natural), vec![4, 2], true, 2, true)]);
    }
    // the same with the query stored reversed / strided: the fast path must still agree with the general path
    let with_layouts: Vec<Scen> = scens.iter().filter(|s| s.qshape[0] >= 2).flat_map(|s| [Layout::Reversed, Layout::Strided].into_iter().map(move |l| { let mut t = s.clone(); t.lay_q = l; t })).collect();
    scens.extend(with_layouts);
    items.extend(scens.into_iter().map(Item::Unobs));
    let mut rep = par_run(items, args.threads, |it| match it {
        Item::Inst(i) => run_inst(i),
        Item::Unobs(s) => check_unobservable(s),
    });
    for f in ["cast_unchecked", "interp1d::Interp1D::interp_array_into", "interp1d::Interp1D::interp_array_into_1d", "interp2d::Interp2D::interp_array_into", "interp2d::Interp2D::interp_array_into_1d", "verif_hooks::on_cast"] {
        rep.functions.insert(f.to_string());
    }
    rep.bounds.push("(a) enumeration, not solving: data dimension types Ix1..Ix6 and IxDyn (2-D: Ix2..Ix6, IxDyn) x query variants Ix0, Ix1 (view / owned / shared query storage), Ix2, Ix3, IxDyn of rank 1 (view / shared) x data storage owned / view / shared x element types f64, f32, i32, i64, Sym x Interp1D (Linear), Interp2D (Bilinear); the hook asserts type_name / size_of / align_of equality inside cast_unchecked and the per-thread cast counter must move by (number of casts of the fast path) exactly for static Ix1 queries".into());
    rep.bounds.push("(b) solver-decided: symbolic axes, data and non-NaN queries; fast path (Ix1) vs IxDyn rank-1 vs 1 x k Ix2 query through interp_array and interp_array_into; Linear n=2..3, Bilinear 2x2, one CubicSpline; k <= 2 (thorough 3)".into());
    rep.outside.push("CubicSpline instantiations in part (a) (the cast does not involve the strategy type); memory-model validity of ptr::read through the transmuted pointer is covered by the thorough-tier engine K harness only".into());
    rep.assumptions.insert("type_name equality together with equal size and alignment is taken as type identity (type_name omits lifetimes)".into());
    rep
}
