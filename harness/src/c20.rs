//! C20: Linear (Bilinear) results depend only on the query and the 2 (4) bracketing data points and their axis
//! values. Mode O two-copy non-interference inside one execution: copy B shares with copy A the query, the
//! bracketing axis values and the bracketing data; every other data value is an independent unconstrained
//! IEEE value (NaN / inf poison are ordinary models) and every other axis value is independent subject to
//! both axes being valid. For every feasible path whose query lies in the bracket: out_A = out_B.
use crate::api::QRank;
use crate::c05::{self, Cfg};
use crate::common::Args;
use crate::engine::core::{explore, with_ctx, ExploreCfg, Mode, Sym};
use crate::engine::json::Json;
use crate::engine::report::{par_run, Chk, Report, Verdict};
use crate::prob::{native_outcome, Call, Kind};

#[derive(Clone, Debug)]
struct Item {
    cfg: Cfg,
    /// bracket (1-D) or cell (2-D) whose points are shared
    ci: usize,
    cj: usize,
}
impl Item {
    fn name(&self) -> String {
        format!("{} shared bracket/cell ({},{})", self.cfg.name(), self.ci, self.cj)
    }
}

fn shared_row(it: &Item, i: usize) -> bool {
    i == it.ci || i == it.ci + 1
}
fn shared_col(it: &Item, j: usize) -> bool {
    j == it.cj || j == it.cj + 1
}
/// copy B: shares the bracketing axis values and data with copy A; `share_second` = false un-shares the
/// upper bracketing data row (canary)
fn copy_b(it: &Item, a: &c05::Syms, share_second: bool) -> c05::Syms {
    let cfg = &it.cfg;
    let mut b = c05::symbols(cfg, "b");
    let lanes = cfg.lanes();
    let (bx, ax) = (b.prob.x.as_mut().unwrap(), a.prob.x.as_ref().unwrap());
    for i in 0..cfg.nx {
        if shared_row(it, i) {
            bx[i] = ax[i];
        }
    }
    if cfg.kind.is_2d() {
        let (by, ay) = (b.prob.y.as_mut().unwrap(), a.prob.y.as_ref().unwrap());
        for j in 0..cfg.ny {
            if shared_col(it, j) {
                by[j] = ay[j];
            }
        }
        for i in 0..cfg.nx {
            for j in 0..cfg.ny {
                if shared_row(it, i) && shared_col(it, j) && (share_second || !(i == it.ci + 1 && j == it.cj + 1)) {
                    for l in 0..lanes {
                        let k = (i * cfg.ny + j) * lanes + l;
                        b.prob.data[k] = a.prob.data[k];
                    }
                }
            }
        }
    } else {
        for i in 0..cfg.nx {
            if shared_row(it, i) && (share_second || i != it.ci + 1) {
                for l in 0..lanes {
                    b.prob.data[i * lanes + l] = a.prob.data[i * lanes + l];
                }
            }
        }
    }
    b.qs = a.qs.clone();
    b
}
fn assume_in_bracket(it: &Item, a: &c05::Syms) {
    let cfg = &it.cfg;
    let x = a.prob.x.as_ref().unwrap();
    let q = a.qs[0];
    Sym::assume_not_nan(q.0);
    // closed at the lower knot, open at the upper one; border brackets open to the outside when extrapolating
    if !(cfg.extrapolate && it.ci == 0) {
        Sym::assume_le(x[it.ci], q.0);
    }
    if !(cfg.extrapolate && it.ci == cfg.nx - 2) {
        if it.ci == cfg.nx - 2 {
            Sym::assume_le(q.0, x[it.ci + 1]);
        } else {
            Sym::assume_lt(q.0, x[it.ci + 1]);
        }
    }
    if cfg.kind.is_2d() {
        let y = a.prob.y.as_ref().unwrap();
        Sym::assume_not_nan(q.1);
        if !(cfg.extrapolate && it.cj == 0) {
            Sym::assume_le(y[it.cj], q.1);
        }
        if !(cfg.extrapolate && it.cj == cfg.ny - 2) {
            if it.cj == cfg.ny - 2 {
                Sym::assume_le(q.1, y[it.cj + 1]);
            } else {
                Sym::assume_lt(q.1, y[it.cj + 1]);
            }
        }
    }
}

fn check_item(it: &Item) -> Report {
    with_ctx(|c| c.reset_all());
    with_ctx(|c| c.mode = Mode::O);
    let cfg = &it.cfg;
    let mut chk = Chk::new(Mode::O, cfg.timeout_ms);
    chk.begin_config(&it.name());
    let a = c05::symbols(cfg, "");
    let b = copy_b(it, &a, true);
    let bc = copy_b(it, &a, false);
    let mut ecfg = ExploreCfg::new(Mode::O, cfg.nx.max(cfg.ny).max(2) - 1);
    ecfg.timeout_ms = cfg.timeout_ms;
    let run = |bb: &c05::Syms| {
        explore(&ecfg, || {
            c05::assume_valid_axes(cfg, &a);
            c05::assume_valid_axes(cfg, bb);
            assume_in_bracket(it, &a);
            (a.prob.run(&cfg.call, &a.qs, Sym::int(0)), bb.prob.run(&cfg.call, &bb.qs, Sym::int(0)))
        })
    };
    let (paths, st) = run(&b);
    chk.add_explore_stats(paths.len(), &st);
    let all_vars: Vec<String> = with_ctx(|c| c.var_names.clone());
    for v in &all_vars {
        chk.term(Sym::var(v));
    }
    let mut n_both = 0;
    for (pi, p) in paths.iter().enumerate() {
        let pcs = chk.pc(&p.pc);
        match &p.result {
            Ok((Ok(oa), Ok(ob))) => {
                n_both += 1;
                for (k, (x, y)) in oa.iter().zip(ob).enumerate() {
                    if x.0 == y.0 {
                        chk.trivially_holds("non-interference");
                        continue;
                    }
                    let mut q = pcs.clone();
                    q.push(format!("(not (= {} {}))", chk.term(*x), chk.term(*y)));
                    if let Verdict::Cex(vals) = chk.must_unsat("non-interference", &format!("path {pi} lane {k}: same result for both copies"), &q, &all_vars) {
                        // native replay: both copies at f64
                        let m = c05::model_f64(&vals);
                        let (pa, qs) = c05::native_problem(cfg, &m, "");
                        let (mut pb, _) = c05::native_problem(cfg, &m, "b");
                        // shared entries take copy A's values
                        let lanes = cfg.lanes();
                        for i in 0..cfg.nx {
                            if shared_row(it, i) {
                                pb.x.as_mut().unwrap()[i] = pa.x.as_ref().unwrap()[i];
                            }
                        }
                        if cfg.kind.is_2d() {
                            for j in 0..cfg.ny {
                                if shared_col(it, j) {
                                    pb.y.as_mut().unwrap()[j] = pa.y.as_ref().unwrap()[j];
                                }
                            }
                            for i in 0..cfg.nx {
                                for j in 0..cfg.ny {
                                    if shared_row(it, i) && shared_col(it, j) {
                                        for l in 0..lanes {
                                            let kk = (i * cfg.ny + j) * lanes + l;
                                            pb.data[kk] = pa.data[kk];
                                        }
                                    }
                                }
                            }
                        } else {
                            for i in 0..cfg.nx {
                                if shared_row(it, i) {
                                    for l in 0..lanes {
                                        pb.data[i * lanes + l] = pa.data[i * lanes + l];
                                    }
                                }
                            }
                        }
                        let valid = |p: &crate::prob::Prob<f64>| p.x.as_ref().unwrap().windows(2).all(|w| w[0] < w[1]) && p.y.as_ref().map(|y| y.windows(2).all(|w| w[0] < w[1])).unwrap_or(true);
                        // the solver's model first; then the same model with copy B's non-shared data replaced by poison
                        // values (a dependency such as `+ 0*y_other` only shows for NaN / infinite samples)
                        let shared_idx: Vec<bool> = pa.data.iter().zip(&pb.data).map(|(x, y)| x.to_bits() == y.to_bits()).collect();
                        let (oa, va) = native_outcome(&pa, &cfg.call, &qs, 0.0);
                        let mut differs = false;
                        let mut shown = (String::new(), None);
                        let mut tried = vec![];
                        for poison in [None, Some(f64::NAN), Some(f64::INFINITY), Some(f64::NEG_INFINITY), Some(1e300), Some(-3.5)] {
                            let mut pbb = pb.clone();
                            if let Some(v) = poison {
                                for (k, d) in pbb.data.iter_mut().enumerate() {
                                    let i = if cfg.kind.is_2d() { k / (cfg.ny * lanes.max(1)) } else { k / lanes.max(1) };
                                    let j = if cfg.kind.is_2d() { (k / lanes.max(1)) % cfg.ny } else { it.cj };
                                    let is_shared = shared_row(it, i) && (!cfg.kind.is_2d() || shared_col(it, j));
                                    if !is_shared {
                                        *d = v;
                                    }
                                }
                            }
                            let _ = &shared_idx;
                            let (ob, vb) = native_outcome(&pbb, &cfg.call, &qs, 0.0);
                            tried.push(format!("{poison:?}"));
                            let d = valid(&pa) && valid(&pbb) && match (&va, &vb) {
                                (Some(a), Some(b)) => a.iter().zip(b).any(|(x, y)| x.to_bits() != y.to_bits() && !(x.is_nan() && y.is_nan())),
                                _ => oa != ob,
                            };
                            shown = (ob, vb);
                            if d {
                                differs = true;
                                break;
                            }
                        }
                        let (ob, vb) = shown;
                        let rec = Json::obj().with("config", it.name()).with("model", c05::model_json(&m)).with("copy_A", format!("{oa} {va:?}")).with("copy_B", format!("{ob} {vb:?}")).with("non_shared_data_of_copy_B_tried", tried);
                        chk.finding(&format!("C20:depends-on-non-bracketing-input:{}", cfg.kind.name()), &format!("{}: changing non-bracketing data / axis values changes the result", it.name()), rec, Some(differs));
                    }
                }
            }
            Ok((ra, rb)) => {
                // one copy answered and the other did not, or both failed: outcome kinds must agree as well
                let (ka, kb) = (ra.as_ref().map(|_| "Ok").unwrap_or_else(|e| e.as_str()).to_string(), rb.as_ref().map(|_| "Ok").unwrap_or_else(|e| e.as_str()).to_string());
                if ka != kb {
                    chk.finding(&format!("C20:outcome-depends-on-non-bracketing-input:{}", cfg.kind.name()), &format!("{}: copy A {ka}, copy B {kb}", it.name()), Json::obj().with("config", it.name()), None);
                }
            }
            Err(msg) => {
                if c05::is_cast_fail(msg) {
                    *chk.rep.cut_by_assumption.entry("C11: index guess of a non-NaN lookup argument is in range".into()).or_default() += 1;
                } else {
                    chk.finding(&format!("C20:panic:{}", cfg.kind.name()), &format!("{}: {msg}", it.name()), Json::obj().with("config", it.name()), None);
                }
            }
        }
    }
    chk.rep.witnesses_expected += 1;
    if n_both > 0 {
        chk.rep.witnesses_found += 1;
    } else {
        chk.rep.errors.push(format!("{}: no path where both copies answered", it.name()));
    }
    // canary: with one bracketing data point un-shared the results must be able to differ
    let (paths, _) = run(&bc);
    let mut fired = false;
    for p in &paths {
        if let Ok((Ok(oa), Ok(ob))) = &p.result {
            if oa[0].0 != ob[0].0 {
                let mut q = chk.pc(&p.pc);
                q.push(format!("(not (= {} {}))", chk.term(oa[0]), chk.term(ob[0])));
                if matches!(chk.feasible(&q), crate::engine::smt::Answer::Sat) {
                    fired = true;
                    break;
                }
            }
        }
    }
    chk.rep.canaries_expected += 1;
    if fired {
        chk.rep.canaries_fired += 1;
    } else {
        chk.rep.errors.push(format!("{}: canary (one bracketing point un-shared) did not fire", it.name()));
    }
    chk.rep
}

fn items(args: &Args) -> Vec<Item> {
    let thorough = args.thorough();
    let timeout_ms = if thorough { 60_000 } else { 20_000 };
    let mut v = vec![];
    for n in 3..=(if thorough { 6 } else { 5 }) {
        for extrapolate in [false, true] {
            for (t, trailing) in [vec![], vec![2]].into_iter().enumerate() {
                for ci in 0..n - 1 {
                    let call = if trailing.is_empty() && ci % 2 == 0 { Call::Scalar } else if (ci + t) % 2 == 0 { Call::Interp } else { Call::Array(vec![1], QRank::Static) };
                    v.push(Item { cfg: Cfg { kind: Kind::Linear, nx: n, ny: 0, trailing: trailing.clone(), call, extrapolate, default_axes: false, dynamic: false, timeout_ms }, ci, cj: 0 });
                }
            }
        }
    }
    // long axes (search windows, block-wise scans): a few brackets of a 10- and a 12-point axis
    for (n, cis) in [(10usize, (0..9).collect::<Vec<usize>>()), (12, vec![1, 10]), (18, vec![0, 8, 16])] {
        for ci in cis {
            v.push(Item { cfg: Cfg { kind: Kind::Linear, nx: n, ny: 0, trailing: vec![], call: Call::Scalar, extrapolate: ci % 4 == 0, default_axes: false, dynamic: false, timeout_ms: 3 * timeout_ms }, ci, cj: 0 });
        }
    }
    for (nx, ny, cells) in [(10usize, 3usize, vec![(0usize, 0usize), (8, 1), (4, 1)]), (3, 10, vec![(0, 0), (1, 8), (0, 5)])] {
        for (ci, cj) in cells {
            v.push(Item { cfg: Cfg { kind: Kind::Bilinear, nx, ny, trailing: vec![], call: Call::Scalar, extrapolate: (ci + cj) % 2 == 1, default_axes: false, dynamic: false, timeout_ms: 3 * timeout_ms }, ci, cj });
        }
    }
    for (nx, ny) in if thorough { vec![(3, 3), (3, 4), (4, 3), (3, 2), (4, 2), (4, 4), (2, 4)] } else { vec![(3, 3), (3, 4), (4, 3), (3, 2), (4, 2)] } {
        for extrapolate in [false, true] {
            for ci in 0..nx - 1 {
                for cj in 0..ny - 1 {
                    let trailing = if (ci + cj) % 2 == 0 { vec![] } else { vec![2] };
                    let call = if trailing.is_empty() { Call::Scalar } else { Call::Interp };
                    v.push(Item { cfg: Cfg { kind: Kind::Bilinear, nx, ny, trailing, call, extrapolate, default_axes: false, dynamic: false, timeout_ms }, ci, cj });
                }
            }
        }
    }
    v
}

pub fn run(args: &Args) -> Report {
    let mut rep = par_run(items(args), args.threads, check_item);
    crate::validate::validate_linear(args.seed, &mut rep);
    crate::validate::validate_bilinear(args.seed, &mut rep);
    for f in crate::c01::FUNCTIONS.iter().chain(crate::c04::FUNCTIONS) {
        rep.functions.insert(f.to_string());
    }
    rep.bounds.push(format!("Linear n = 3..{}, every bracket, 1 and 2 lanes, in range and extrapolated; Bilinear grids 3x3, 3x4, 3x2{}, every cell; axis values, data and query all IEEE doubles (non-bracketing data unconstrained incl. NaN / inf; non-bracketing axis values independent subject to x_i < x_i+1 in both copies)", if args.thorough() { 6 } else { 5 }, if args.thorough() { ", 4x3, 4x2, 4x4, 2x4" } else { ", 4x3, 4x2" }));
    rep.outside.push("sizes above the bound".into());
    rep.assumptions.insert("mode O: comparisons bit-precise IEEE, arithmetic uninterpreted (equal operations on equal operands give equal results - congruence)".into());
    rep.assumptions.insert("C11 (engine K): the index guess of a non-NaN lookup argument on a valid axis casts to an in-range index".into());
    rep
}
