//! A rank-erased description of "build an interpolator and make one call", runnable at any scalar type
//! (Sym for symbolic / exact / concolic execution, f64 and f32 for native replay) against the real crate.
use ndarray::{ArrayD, IxDyn};
use ndarray_interp::interp1d::cubic_spline::SplineNum;

use crate::api::{arr1, arrd, build_1d, build_2d, err_kind_b, err_kind_i, Dyn1, Dyn2, QRank, Strat1};
use crate::spline::Bc;

#[derive(Clone, Debug, PartialEq, Eq, Hash)]
pub enum Kind {
    Linear,
    Spline(Bc),
    Bilinear,
}
impl Kind {
    pub fn name(&self) -> String {
        match self {
            Kind::Linear => "Linear".into(),
            Kind::Spline(bc) => format!("CubicSpline[{}]", bc.name()),
            Kind::Bilinear => "Bilinear".into(),
        }
    }
    pub fn is_2d(&self) -> bool {
        matches!(self, Kind::Bilinear)
    }
    pub fn min_len(&self) -> usize {
        match self {
            Kind::Spline(_) => 3,
            _ => 2,
        }
    }
}
#[derive(Clone, Debug)]
pub struct Prob<T> {
    pub kind: Kind,
    /// None = default index axis
    pub x: Option<Vec<T>>,
    pub y: Option<Vec<T>>,
    pub shape: Vec<usize>,
    pub data: Vec<T>,
    pub vl: Vec<T>,
    pub vr: Vec<T>,
    pub extrapolate: bool,
    /// keep the data as IxDyn
    pub dynamic: bool,
}
#[derive(Clone, Debug, PartialEq, Eq, Hash)]
pub enum Call {
    Scalar,
    Interp,
    InterpInto,
    /// query array of the given shape, static or dynamic dimension type
    Array(Vec<usize>, QRank),
    ArrayInto(Vec<usize>, QRank),
}
impl Call {
    pub fn name(&self) -> String {
        match self {
            Call::Scalar => "interp_scalar".into(),
            Call::Interp => "interp".into(),
            Call::InterpInto => "interp_into".into(),
            Call::Array(s, r) => format!("interp_array(q{:?},{:?})", s, r),
            Call::ArrayInto(s, r) => format!("interp_array_into(q{:?},{:?})", s, r),
        }
    }
    pub fn n_queries(&self) -> usize {
        match self {
            Call::Array(s, _) | Call::ArrayInto(s, _) => s.iter().product(),
            _ => 1,
        }
    }
}
pub enum Built<'a, T> {
    D1(Box<dyn Dyn1<T> + 'a>),
    D2(Box<dyn Dyn2<T> + 'a>),
}
impl<T: SplineNum + 'static> Prob<T> {
    pub fn interp_axes(&self) -> usize {
        if self.kind.is_2d() {
            2
        } else {
            1
        }
    }
    pub fn trailing(&self) -> Vec<usize> {
        self.shape[self.interp_axes().min(self.shape.len())..].to_vec()
    }
    pub fn lanes(&self) -> usize {
        self.trailing().iter().product()
    }
    pub fn build(&self) -> Result<Built<'static, T>, String> {
        let data = arrd(&self.shape, &self.data);
        match &self.kind {
            Kind::Bilinear => build_2d(self.x.as_ref().map(|x| arr1(x)), self.y.as_ref().map(|y| arr1(y)), data, self.extrapolate, self.dynamic).map(Built::D2).map_err(|e| format!("BuilderError::{}", err_kind_b(&e))),
            Kind::Linear => build_1d(self.x.as_ref().map(|x| arr1(x)), data, &Strat1::Linear { extrapolate: self.extrapolate }, self.dynamic).map(Built::D1).map_err(|e| format!("BuilderError::{}", err_kind_b(&e))),
            Kind::Spline(bc) => build_1d(self.x.as_ref().map(|x| arr1(x)), data, &Strat1::Spline { bc: bc.clone(), vl: self.vl.clone(), vr: self.vr.clone(), extrapolate: self.extrapolate }, self.dynamic).map(Built::D1).map_err(|e| format!("BuilderError::{}", err_kind_b(&e))),
        }
    }
    /// one call on a built interpolator; `qs` = query points in row-major order of the query shape
    /// (second coordinate ignored in 1-D); returns the flat output (query index major, lanes minor)
    pub fn call(&self, it: &Built<'_, T>, call: &Call, qs: &[(T, T)], zero: T) -> Result<Vec<T>, String> {
        let tr = self.trailing();
        let e = |e: ndarray_interp::InterpolateError| format!("InterpolateError::{}", err_kind_i(&e));
        let qx = |shape: &[usize]| ArrayD::from_shape_vec(IxDyn(shape), qs.iter().map(|q| q.0).collect()).unwrap();
        let qy = |shape: &[usize]| ArrayD::from_shape_vec(IxDyn(shape), qs.iter().map(|q| q.1).collect()).unwrap();
        match (it, call) {
            (Built::D1(i), Call::Scalar) => i.interp_scalar(qs[0].0).map(|v| vec![v]).map_err(e),
            (Built::D1(i), Call::Interp) => i.interp(qs[0].0).map(|a| a.iter().copied().collect()).map_err(e),
            (Built::D1(i), Call::InterpInto) => {
                let mut buf = ArrayD::from_elem(IxDyn(&tr), zero);
                i.interp_into(qs[0].0, buf.view_mut()).map(|_| buf.iter().copied().collect()).map_err(e)
            }
            (Built::D1(i), Call::Array(s, r)) => i.interp_array(qx(s).view(), *r).map(|a| a.iter().copied().collect()).map_err(e),
            (Built::D1(i), Call::ArrayInto(s, r)) => {
                let mut shape = s.clone();
                shape.extend(&tr);
                let mut buf = ArrayD::from_elem(IxDyn(&shape), zero);
                i.interp_array_into(qx(s).view(), *r, buf.view_mut()).map(|_| buf.iter().copied().collect()).map_err(e)
            }
            (Built::D2(i), Call::Scalar) => i.interp_scalar(qs[0].0, qs[0].1).map(|v| vec![v]).map_err(e),
            (Built::D2(i), Call::Interp) => i.interp(qs[0].0, qs[0].1).map(|a| a.iter().copied().collect()).map_err(e),
            (Built::D2(i), Call::InterpInto) => {
                let mut buf = ArrayD::from_elem(IxDyn(&tr), zero);
                i.interp_into(qs[0].0, qs[0].1, buf.view_mut()).map(|_| buf.iter().copied().collect()).map_err(e)
            }
            (Built::D2(i), Call::Array(s, r)) => i.interp_array(qx(s).view(), qy(s).view(), *r).map(|a| a.iter().copied().collect()).map_err(e),
            (Built::D2(i), Call::ArrayInto(s, r)) => {
                let mut shape = s.clone();
                shape.extend(&tr);
                let mut buf = ArrayD::from_elem(IxDyn(&shape), zero);
                i.interp_array_into(qx(s).view(), qy(s).view(), *r, buf.view_mut()).map(|_| buf.iter().copied().collect()).map_err(e)
            }
        }
    }
    pub fn run(&self, call: &Call, qs: &[(T, T)], zero: T) -> Result<Vec<T>, String> {
        let it = self.build()?;
        self.call(&it, call, qs, zero)
    }
}
/// run natively, catching panics: "Ok" / "InterpolateError::.." / "BuilderError::.." / "panic: .."
pub fn native_outcome<T: SplineNum + 'static>(p: &Prob<T>, call: &Call, qs: &[(T, T)], zero: T) -> (String, Option<Vec<T>>) {
    crate::engine::core::silence_panics();
    let r = std::panic::catch_unwind(std::panic::AssertUnwindSafe(|| p.run(call, qs, zero)));
    match r {
        Ok(Ok(v)) => ("Ok".into(), Some(v)),
        Ok(Err(e)) => (e, None),
        Err(p) => {
            let m = if let Some(s) = p.downcast_ref::<String>() {
                s.clone()
            } else if let Some(s) = p.downcast_ref::<&str>() {
                s.to_string()
            } else {
                "?".into()
            };
            (format!("panic: {m}"), None)
        }
    }
}
