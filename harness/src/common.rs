//! helpers shared by the per-property binaries: command line, seeded RNG, concrete axis families,
//! report output.
use crate::engine::core::{Rat, Sym};
use crate::engine::json::Json;
use crate::engine::report::Report;

#[derive(Clone, Debug)]
pub struct Args {
    pub tier: String,
    pub seed: u64,
    pub out: String,
    pub threads: usize,
    pub replay: Option<String>,
    pub extra: Vec<String>,
}
pub fn parse_args() -> Args {
    let mut a = Args { tier: "quick".into(), seed: 0, out: String::new(), threads: 16, replay: None, extra: vec![] };
    let argv: Vec<String> = std::env::args().skip(1).collect();
    let mut i = 0;
    while i < argv.len() {
        match argv[i].as_str() {
            "--tier" => {
                a.tier = argv[i + 1].clone();
                i += 1
            }
            "--seed" => {
                a.seed = argv[i + 1].parse().unwrap_or(0);
                i += 1
            }
            "--out" => {
                a.out = argv[i + 1].clone();
                i += 1
            }
            "--threads" => {
                a.threads = argv[i + 1].parse().unwrap_or(16);
                i += 1
            }
            "--replay" => {
                a.replay = Some(argv[i + 1].clone());
                i += 1
            }
            other => a.extra.push(other.to_string()),
        }
        i += 1;
    }
    a
}
impl Args {
    pub fn thorough(&self) -> bool {
        self.tier == "thorough"
    }
}
pub fn finish(args: &Args, property: &str, rep: &Report, t0: std::time::Instant) {
    let mut j = rep.to_json();
    j.set("property", property);
    j.set("tier", args.tier.as_str());
    j.set("seed", args.seed);
    j.set("engine_wall_s", t0.elapsed().as_secs_f64());
    let text = format!("{j}\n");
    if args.out.is_empty() {
        print!("{text}");
    } else {
        std::fs::write(&args.out, text).expect("cannot write report");
    }
    eprintln!(
        "[{property}] configs {} paths {} (feasible {}) obligations {} discharged {} (same-node {}) witnesses {}/{} canaries {}/{} findings {} inconclusive {} errors {} solver {} ms wall {:.1}s",
        rep.configs,
        rep.paths,
        rep.feasible_paths,
        rep.obligations,
        rep.discharged,
        rep.trivial,
        rep.witnesses_found,
        rep.witnesses_expected,
        rep.canaries_fired,
        rep.canaries_expected,
        rep.findings.len(),
        rep.inconclusive.len(),
        rep.errors.len(),
        rep.solver_ms,
        t0.elapsed().as_secs_f64()
    );
}

/// xorshift64* - deterministic, seedable
pub struct Rng(pub u64);
impl Rng {
    pub fn new(seed: u64) -> Rng {
        Rng(seed.wrapping_mul(0x9E3779B97F4A7C15) ^ 0xD1B54A32D192ED03)
    }
    pub fn next(&mut self) -> u64 {
        let mut x = self.0;
        x ^= x >> 12;
        x ^= x << 25;
        x ^= x >> 27;
        self.0 = x;
        x.wrapping_mul(0x2545F4914F6CDD1D)
    }
    pub fn below(&mut self, n: u64) -> u64 {
        self.next() % n
    }
    pub fn f64_in(&mut self, lo: f64, hi: f64) -> f64 {
        lo + (hi - lo) * ((self.next() >> 11) as f64 / (1u64 << 53) as f64)
    }
}

/// a concrete rational axis with a descriptive name
#[derive(Clone, Debug)]
pub struct Axis {
    pub name: String,
    pub x: Vec<Rat>,
}
impl Axis {
    pub fn syms(&self) -> Vec<Sym> {
        self.x.iter().map(|r| Sym::rat(r.0, r.1)).collect()
    }
    pub fn n(&self) -> usize {
        self.x.len()
    }
    pub fn intervals(&self) -> Vec<Rat> {
        self.x.windows(2).map(|w| w[1].sub(w[0]).unwrap()).collect()
    }
    pub fn distinct_intervals(&self) -> bool {
        let h = self.intervals();
        (0..h.len()).all(|i| (i + 1..h.len()).all(|j| h[i] != h[j]))
    }
    pub fn text(&self) -> String {
        format!("[{}]", self.x.iter().map(|r| r.to_string()).collect::<Vec<_>>().join(", "))
    }
    pub fn from_steps(name: &str, origin: Rat, steps: &[Rat]) -> Axis {
        let mut x = vec![origin];
        for s in steps {
            let l = *x.last().unwrap();
            x.push(l.add(*s).unwrap());
        }
        Axis { name: name.into(), x }
    }
}
fn r(n: i128, d: i128) -> Rat {
    Rat::new(n, d)
}
/// nudge steps so that all interval lengths are pairwise distinct (adds multiples of 1/64)
fn make_distinct(steps: &mut Vec<Rat>) {
    for i in 0..steps.len() {
        let mut k = 0;
        while (0..i).any(|j| steps[j] == steps[i]) {
            k += 1;
            steps[i] = steps[i].add(r(k, 64)).unwrap();
        }
    }
}
/// The concrete axis family of DESIGN 5.0 for length n. Apart from the explicitly uniform member and the two
/// "partially equal" members every axis has pairwise distinct interval lengths (a wrong-interval defect is
/// invisible when the two confused intervals are equal; a shortcut keyed on equal intervals is invisible when
/// none are).
pub fn axis_family(n: usize, count: usize, seed: u64) -> Vec<Axis> {
    let m = n - 1;
    let mut out: Vec<Axis> = vec![];
    fn push_axis(out: &mut Vec<Axis>, name: &str, origin: Rat, mut steps: Vec<Rat>, uniform: bool) {
        if !uniform {
            make_distinct(&mut steps);
        }
        let a = Axis::from_steps(name, origin, &steps);
        assert!(uniform || a.distinct_intervals());
        out.push(a);
    }
    macro_rules! push {
        ($($a:expr),*) => { push_axis(&mut out, $($a),*) };
    }
    // geometric ratio 2, negative origin
    push!("geometric2", r(-3, 2), (0..m).map(|i| r(1 << i, 2)).collect(), false);
    if n >= 9 {
        // one interval 1000 times the others at either end: the evenly-spaced index guess lands up to n-2 intervals
        // away from the bracket (a search limited to a window around the guess shows only here)
        push!("huge-last", r(0, 1), (0..m).map(|i| if i == m - 1 { r(1000, 1) } else { r(1, 1) }).collect(), false);
        push!("huge-first", r(-3, 1), (0..m).map(|i| if i == 0 { r(2000, 1) } else { r(1, 2) }).collect(), false);
    }
    // uniform
    push!("uniform", r(0, 1), vec![r(1, 1); m], true);
    // partially equal intervals (a shortcut keyed on "the axis looks evenly spaced" must not fire here): all equal
    // except one interval in the middle, and equal pairs
    push!("uniform-except-middle", r(0, 1), (0..m).map(|i| if i == m / 2 { r(2, 1) } else { r(1, 1) }).collect(), true);
    push!("equal-pairs", r(-2, 1), (0..m).map(|i| r(1 + (i / 2) as i128, 2)).collect(), true);
    // thirds / sevenths (non-dyadic), offset origin
    push!("thirds-sevenths", r(10, 3), (0..m).map(|i| if i % 2 == 0 { r(1 + i as i128, 3) } else { r(2 + i as i128, 7) }).collect(), false);
    // geometric ratio 1/2
    push!("geometric-half", r(1, 1), (0..m).map(|i| r(1 << (m - 1 - i), 4)).collect(), false);
    // mesh ratio 2^6 at the left end / right end / middle
    push!("mesh64-left", r(0, 1), (0..m).map(|i| if i == 0 { r(1, 64) } else { r(1, 1) }).collect(), false);
    push!("mesh64-right", r(-5, 1), (0..m).map(|i| if i == m - 1 { r(1, 64) } else { r(1, 1) }).collect(), false);
    push!("long-middle", r(2, 1), (0..m).map(|i| if i == m / 2 { r(64, 1) } else { r(1, 1) }).collect(), false);
    // alternating 1,3
    push!("alternating13", r(-7, 2), (0..m).map(|i| if i % 2 == 0 { r(1, 1) } else { r(3, 1) }).collect(), false);
    // one long interval at each position
    for p in 0..m {
        push!(&format!("long-at-{p}"), r(1, 4), (0..m).map(|i| if i == p { r(9, 1) } else { r(1, 2) }).collect(), false);
    }
    // seeded random rational axes
    let mut rng = Rng::new(seed ^ (n as u64) << 32);
    let mut k = 0;
    while out.len() < count {
        let dens = [1i128, 2, 3, 7];
        let steps: Vec<Rat> = (0..m).map(|_| r(1 + rng.below(64) as i128, dens[rng.below(4) as usize])).collect();
        let origin = r(rng.below(41) as i128 - 20, dens[rng.below(4) as usize]);
        push!(&format!("random{k}(seed {seed})"), origin, steps, false);
        k += 1;
    }
    out.truncate(count);
    out
}

pub fn jstr_list(v: &[String]) -> Json {
    Json::Arr(v.iter().map(|s| Json::Str(s.clone())).collect())
}
