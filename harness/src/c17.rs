//! C17: an interpolator is immutable - answers do not depend on the history of earlier calls. Mode O:
//! histories are straight-line harness code over one real interpolator: a = interp(q1); then up to three
//! further calls drawn from {single query, scalar query, batch, out-of-range query returning Err, wrongly
//! shaped buffer call that panics under catch_unwind, correct buffer call}; then q1 again through every
//! entry point. All data are symbols, q1 is a symbol (every bracket / in- and out-of-range), the in-between
//! queries are constants spread over the range. Obligation: every repetition returns the term a.
//! (Concurrent schedules are not decided; the Send + Sync half is the separate compile-time binary.)
use crate::api::QRank;
use crate::common::Args;
use crate::engine::core::{explore, with_ctx, Abandon, ExploreCfg, Mode, Sym};
use crate::engine::json::Json;
use crate::engine::report::{par_run, Chk, Report, Verdict};
use crate::entry::{self, Built, Ep, Out, Scen, Vals};
use crate::layout::Layout;
use crate::prob::Kind;
use crate::spline::Bc;

#[derive(Clone, Copy, Debug, PartialEq, Eq)]
enum Mid {
    Single(usize),
    Scalar(usize),
    Batch,
    OutOfRange,
    BadBuffer,
    /// interp_into with a wrongly shaped buffer: the panic is raised inside the strategy
    BadBufferSingle,
    GoodBuffer,
}
#[derive(Clone, Debug)]
struct Item {
    s: Scen,
    hist: Vec<Mid>,
    /// axis values and the in-between queries are symbols as well (any valid axis, any unit)
    symbolic_axes: bool,
}
impl Item {
    fn name(&self) -> String {
        format!("history {:?} :: {}{}", self.hist, self.s.name(), if self.symbolic_axes { " symbolic axes and in-between queries" } else { "" })
    }
}

/// run one in-between call; panics of the crate are caught (they are part of the history)
fn mid_call<T: ndarray_interp::interp1d::cubic_spline::SplineNum + 'static>(s: &Scen, v: &Vals<T>, it: &Built<'_, T>, m: Mid, far: (T, T)) -> String {
    let run = |ep: &Ep, vals: &Vals<T>, buf: Option<&[usize]>| -> String {
        let r = std::panic::catch_unwind(std::panic::AssertUnwindSafe(|| entry::call(s, vals, it, ep, buf, None, &mut |_| vals.zero, &mut |_, _| vals.zero)));
        match r {
            Ok(Ok(_)) => "Ok".into(),
            Ok(Err(e)) => e,
            Err(p) => {
                if p.downcast_ref::<Abandon>().is_some() {
                    std::panic::resume_unwind(p);
                }
                "panic".into()
            }
        }
    };
    match m {
        Mid::Single(k) => run(&Ep::Interp(k), v, None),
        Mid::Scalar(k) => run(&Ep::Scalar(k), v, None),
        Mid::Batch => run(&Ep::Array, v, None),
        Mid::GoodBuffer => run(&Ep::ArrayInto, v, None),
        Mid::BadBuffer => {
            let mut wrong = s.result_shape();
            let last = wrong.len() - 1;
            wrong[last] += 1;
            run(&Ep::ArrayInto, v, Some(&wrong))
        }
        Mid::BadBufferSingle => {
            let mut wrong = s.trailing();
            if wrong.is_empty() {
                return "not applicable".into();
            }
            let last = wrong.len() - 1;
            wrong[last] += 1;
            run(&Ep::InterpInto(2), v, Some(&wrong))
        }
        Mid::OutOfRange => {
            let mut vv = v.clone();
            vv.qx[1] = far.0;
            vv.qy[1] = far.1;
            run(&Ep::Interp(1), &vv, None)
        }
    }
}

struct Obs<T> {
    first: Result<Out<T>, String>,
    mids: Vec<String>,
    again: Vec<(String, Result<Out<T>, String>)>,
}
fn history<T: ndarray_interp::interp1d::cubic_spline::SplineNum + 'static>(it_: &Item, v: &Vals<T>, far: (T, T)) -> Result<Obs<T>, String> {
    let s = &it_.s;
    let arrs = entry::arrays(s, v, &mut |_, _| v.zero);
    let built = entry::build(s, v, &arrs)?;
    let mut z = |_: usize| v.zero;
    let mut j = |_: &str, _: usize| v.zero;
    let first = entry::call(s, v, &built, &Ep::Interp(0), None, None, &mut z, &mut j);
    let mids = it_.hist.iter().map(|m| mid_call(s, v, &built, *m, far)).collect();
    let mut again = vec![];
    let mut eps = vec![Ep::Interp(0), Ep::InterpInto(0)];
    if s.trailing().is_empty() && !s.dynamic {
        eps.push(Ep::Scalar(0));
    }
    for ep in eps {
        again.push((ep.name(), entry::call(s, v, &built, &ep, None, None, &mut z, &mut j)));
    }
    // and as the first element of a batch
    let r = entry::call(s, v, &built, &Ep::Array, None, None, &mut z, &mut j).map(|o| {
        let lanes = s.lanes();
        Out { shape: s.trailing(), values: o.values[..lanes].to_vec(), backing: vec![] }
    });
    again.push(("interp_array(q)[0]".into(), r));
    Ok(Obs { first, mids, again })
}

fn sym_vals(s: &Scen, symbolic_axes: bool) -> (Vals<Sym>, (Sym, Sym)) {
    let mut v = crate::c09::sym_vals(s, symbolic_axes, symbolic_axes);
    // q[0] is the symbolic query whose answer must not change; the others stay constants
    v.qx[0] = Sym::var("q1x");
    v.qy[0] = Sym::var("q1y");
    let far = (v.x[v.x.len() - 1] + Sym::int(7), v.y[v.y.len() - 1] + Sym::int(7));
    (v, far)
}

fn check_item(it: &Item) -> Report {
    with_ctx(|c| c.reset_all());
    with_ctx(|c| c.mode = Mode::O);
    let s = &it.s;
    let mut chk = Chk::new(Mode::O, 20_000);
    chk.begin_config(&it.name());
    let (v, far) = sym_vals(s, it.symbolic_axes);
    let mut ecfg = ExploreCfg::new(Mode::O, s.nx().max(s.ny()).max(2) - 1);
    if it.symbolic_axes {
        ecfg.max_paths = 200_000;
        ecfg.max_seconds = 600;
    }
    let (paths, st) = explore(&ecfg, || {
        if it.symbolic_axes {
            for i in 0..s.nx() - 1 {
                Sym::assume_lt(v.x[i], v.x[i + 1]);
            }
            for i in 0..s.ny().max(1) - 1 {
                Sym::assume_lt(v.y[i], v.y[i + 1]);
            }
        }
        for k in 0..v.qx.len() {
            Sym::assume_not_nan(v.qx[k]);
            Sym::assume_not_nan(v.qy[k]);
            if it.symbolic_axes && k > 0 {
                // the in-between queries are in range (the batch that repeats q1 contains them and fails as a whole otherwise)
                Sym::assume_le(v.x[0], v.qx[k]);
                Sym::assume_le(v.qx[k], v.x[s.nx() - 1]);
                if s.kind.is_2d() {
                    Sym::assume_le(v.y[0], v.qy[k]);
                    Sym::assume_le(v.qy[k], v.y[s.ny() - 1]);
                }
            }
        }
        history(it, &v, far)
    });
    chk.add_explore_stats(paths.len(), &st);
    let all_vars: Vec<String> = with_ctx(|c| c.var_names.clone());
    for n in &all_vars {
        chk.term(Sym::var(n));
    }
    let kname = s.kind.name();
    let mut n_ok = 0;
    let mut mids_seen = std::collections::BTreeSet::new();
    for (pi, p) in paths.iter().enumerate() {
        if chk.rep.findings.iter().any(|f| f.reproduced == Some(true)) {
            break; // refuted: no need to decide the remaining paths of this history
        }
        let pcs = chk.pc(&p.pc);
        let obs = match &p.result {
            Ok(Ok(o)) => o,
            Ok(Err(_)) => continue,
            Err(m) => {
                if crate::c05::is_cast_fail(m) {
                    *chk.rep.cut_by_assumption.entry("C11: index guess of a non-NaN lookup argument is in range".into()).or_default() += 1;
                } else {
                    chk.finding(&format!("C17:panic:{kname}"), &format!("{}: {m}", it.name()), Json::obj().with("config", it.name()), None);
                }
                continue;
            }
        };
        for m in &obs.mids {
            mids_seen.insert(m.clone());
        }
        for (name, r) in &obs.again {
            match (&obs.first, r) {
                (Ok(a), Ok(b)) => {
                    n_ok += 1;
                    for i in 0..a.values.len() {
                        if a.values[i].0 == b.values[i].0 {
                            chk.trivially_holds("history-independence");
                            continue;
                        }
                        let mut q = pcs.clone();
                        q.push(format!("(not (= {} {}))", chk.term(a.values[i]), chk.term(b.values[i])));
                        if let Verdict::Cex(vals) = chk.must_unsat("history-independence", &format!("path {pi}: {name} after the history returns the first answer (element {i})"), &q, &all_vars) {
                            let m = crate::c05::model_f64(&vals);
                            // the same axis and in-between queries as the symbolic scenario, q1 from the model, generic data
                            let mut nv = crate::c09::native_from_sym(&v, &m, 11);
                            if let Kind::Spline(Bc::Periodic) = s.kind {
                                let lanes = s.lanes();
                                for j in 0..lanes {
                                    nv.data[(s.nx() - 1) * lanes + j] = nv.data[j];
                                }
                            }
                            let farn = (nv.x[nv.x.len() - 1] + 7.0, nv.y[nv.y.len() - 1] + 7.0);
                            crate::engine::core::silence_panics();
                            // generic data first; then the same with one data element at a time replaced by NaN / inf: a
                            // history-dependent choice between two mathematically equal formulas only shows on such samples
                            let mut candidates = vec![nv.clone()];
                            for special in [f64::NAN, f64::INFINITY] {
                                for k in 0..nv.data.len() {
                                    let mut c = nv.clone();
                                    c.data[k] = special;
                                    if let Kind::Spline(Bc::Periodic) = s.kind {
                                        continue;
                                    }
                                    candidates.push(c);
                                }
                            }
                            let mut differs = false;
                            let mut shown = String::new();
                            for cand in &candidates {
                                let nat = std::panic::catch_unwind(std::panic::AssertUnwindSafe(|| history(it, cand, farn)));
                                let d = match &nat {
                                    Ok(Ok(o)) => o.again.iter().any(|(_, r)| match (&o.first, r) {
                                        (Ok(a), Ok(b)) => a.values.iter().zip(&b.values).any(|(x, y)| x.to_bits() != y.to_bits() && !(x.is_nan() && y.is_nan())),
                                        (a, b) => a.is_ok() != b.is_ok(),
                                    }),
                                    _ => true,
                                };
                                if d {
                                    differs = true;
                                    shown = format!("data {:?}, q1 {:?}", cand.data, (cand.qx[0], cand.qy[0]));
                                    break;
                                }
                            }
                            let m = {
                                let mut mm = m.clone();
                                if !shown.is_empty() {
                                    mm.insert("native_witness_note".into(), 0.0);
                                }
                                mm
                            };
                            let _ = &shown;
                            chk.finding(&format!("C17:answer-depends-on-history:{kname}"), &format!("{}: repeating the first query through {name} gives a different value", it.name()), Json::obj().with("config", it.name()).with("model", crate::c05::model_json(&m)), Some(differs));
                        }
                    }
                }
                (a, b) => {
                    let k = |r: &Result<Out<Sym>, String>| r.as_ref().map(|_| "Ok".to_string()).unwrap_or_else(|e| e.clone());
                    if k(a) != k(b) {
                        chk.finding(&format!("C17:outcome-depends-on-history:{kname}"), &format!("{}: first call {} but {name} afterwards {}", it.name(), k(a), k(b)), Json::obj().with("config", it.name()), None);
                    } else {
                        chk.trivially_holds("history-independence (same failure)");
                    }
                }
            }
        }
    }
    chk.rep.witnesses_expected += 1;
    if n_ok > 0 {
        chk.rep.witnesses_found += 1;
    } else {
        chk.rep.errors.push(format!("{}: no path where the repeated query was answered", it.name()));
    }
    // vacuity of the history: the failing kinds really fail
    for m in &it.hist {
        let want = match m {
            Mid::OutOfRange if !s.extrapolate => Some("InterpolateError::OutOfBounds"),
            Mid::BadBuffer | Mid::BadBufferSingle => Some("panic"),
            _ => None,
        };
        if let Some(w) = want {
            chk.rep.witnesses_expected += 1;
            if mids_seen.contains(w) {
                chk.rep.witnesses_found += 1;
            } else {
                chk.rep.errors.push(format!("{}: the history step {m:?} never produced {w} (saw {:?})", it.name(), mids_seen));
            }
        }
    }
    chk.rep
}

fn items(args: &Args) -> Vec<Item> {
    let thorough = args.thorough();
    let mk = |kind: Kind, shape: Vec<usize>, extrapolate: bool| Scen { kind, shape, dynamic: false, extrapolate, default_axes: false, lay_data: Layout::C, lay_x: Layout::C, lay_y: Layout::C, lay_q: Layout::C, lay_buf: Layout::C, qshape: vec![3], qrank: QRank::Static };
    let mut scens = vec![mk(Kind::Linear, vec![4], false), mk(Kind::Spline(Bc::NotAKnot), vec![4, 2], false), mk(Kind::Spline(Bc::Periodic), vec![4], true), mk(Kind::Bilinear, vec![3, 3], false)];
    if thorough {
        scens.extend([mk(Kind::Linear, vec![3, 2], true), mk(Kind::Spline(Bc::Natural), vec![5], true), mk(Kind::Bilinear, vec![2, 3, 2], true)]);
    }
    let kinds = |s: &Scen| -> Vec<Mid> {
        let mut k = vec![Mid::Single(1), Mid::Single(2), Mid::Batch, Mid::OutOfRange, Mid::BadBuffer, Mid::GoodBuffer];
        if s.trailing().is_empty() {
            k.push(Mid::Scalar(2));
        } else {
            k.push(Mid::BadBufferSingle);
        }
        k
    };
    let maxlen = if thorough { 4 } else { 3 };
    let mut v = vec![];
    // long axes (a lookup memo / scan window only goes wrong when the repeated query lies many intervals away from
    // the previous one): shorter histories
    let n_short = scens.len();
    scens.extend([mk(Kind::Linear, vec![18], false), mk(Kind::Bilinear, vec![12, 3], true)]);
    if thorough {
        scens.push(mk(Kind::Spline(Bc::Natural), vec![14], true));
    }
    for (si, s) in scens.iter().enumerate() {
        let maxlen = if si >= n_short { (if thorough { 2 } else { 1 }) + (if s.kind.is_2d() { 0 } else { 1 }) } else { maxlen };
        let ks = kinds(s);
        let mut hists: Vec<Vec<Mid>> = vec![vec![]];
        let mut frontier: Vec<Vec<Mid>> = vec![vec![]];
        for _ in 0..maxlen {
            let mut next = vec![];
            for h in &frontier {
                for k in &ks {
                    let mut n = h.clone();
                    n.push(*k);
                    next.push(n);
                }
            }
            hists.extend(next.iter().cloned());
            frontier = next;
        }
        for h in hists {
            v.push(Item { s: s.clone(), hist: h, symbolic_axes: false });
        }
    }
    // any valid axis in any unit (a memo test such as `(x-lo)*(x-hi) <= 0` only goes wrong when the product underflows):
    // small interpolators with symbolic axes and symbolic in-between queries, histories of one or two single queries
    for mut s in [mk(Kind::Linear, vec![3], false), mk(Kind::Linear, vec![4], false), mk(Kind::Bilinear, vec![3, 2], false)] {
        s.qshape = vec![2];
        v.push(Item { s: s.clone(), hist: vec![Mid::Single(1)], symbolic_axes: true });
        if thorough && !s.kind.is_2d() {
            v.push(Item { s: s.clone(), hist: vec![Mid::Single(1), Mid::Batch], symbolic_axes: true });
        }
    }
    v
}

pub fn run(args: &Args) -> Report {
    let mut rep = par_run(items(args), args.threads, check_item);
    for f in ["interp1d::Interp1D::interp", "interp1d::Interp1D::interp_scalar", "interp1d::Interp1D::interp_into", "interp1d::Interp1D::interp_array", "interp1d::Interp1D::interp_array_into", "interp2d::Interp2D::interp", "interp2d::Interp2D::interp_scalar", "interp2d::Interp2D::interp_into", "interp2d::Interp2D::interp_array", "interp2d::Interp2D::interp_array_into", "interp1d::strategies::cubic_spline::CubicSplineStrategy::interp_into", "interp1d::strategies::linear::Linear::interp_into", "interp2d::strategies::bilinear::Bilinear::interp_into"] {
        rep.functions.insert(f.to_string());
    }
    rep.bounds.push(format!("every history of 0..{} in-between calls over the kinds {{single query at two other abscissae, scalar query, batch, out-of-range query (Err), wrongly shaped buffer (panic caught), correct buffer}} on Linear (4 points), CubicSpline NotAKnot (4 points, 2 lanes), periodic extrapolating spline, Bilinear 3x3{}; the repeated query q1 is a symbol (any non-NaN double, every bracket), all data symbols; repeated through interp, interp_into, interp_scalar and as first element of a batch", if args.thorough() { 4 } else { 3 }, if args.thorough() { ", extrapolating Linear with lanes, Natural spline, Bilinear with lanes" } else { "" }));
    rep.outside.push("concurrent schedules: Kani does not model threads and engine S is single-threaded per arena; a data race behind an `unsafe impl Sync` or a static scratch buffer that is correct sequentially is outside the claim (a static / thread_local scratch that leaks between sequential calls is inside)".into());
    rep.assumptions.insert("mode O; the Send + Sync half of the property is the compile-time binary c17_sendsync, whose failure to compile is reported as the violation".into());
    rep
}
