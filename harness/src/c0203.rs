//! C02 (spline passes through the data and is a C2 piecewise cubic) and C03 (boundary conditions honoured).
//! Mode R, concrete rational axes; data, boundary derivative values and the query are solver variables.
use std::collections::BTreeMap;

use ndarray::{ArrayD, IxDyn};

use crate::common::{axis_family, Args, Axis};
use crate::engine::calc::{diff_n, lit_vars, subst};
use crate::engine::core::{explore, run_concrete, with_ctx, ExploreCfg, Lit, Mode, Rat, Sym};
use crate::engine::json::Json;
use crate::engine::report::{par_run, Chk, Report, Verdict};
use crate::engine::smt::sx_to_rat;
use crate::spline::{newton4, newton4_derivs, Bc, End, Row, SplineProblem};

#[derive(Clone, Debug)]
pub struct Cfg {
    pub axis: Axis,
    pub bc: Bc,
    pub trailing: Vec<usize>,
    pub timeout_ms: u64,
}
impl Cfg {
    pub fn name(&self) -> String {
        format!("n={} axis={}{} bc={} trailing={:?}", self.axis.n(), self.axis.name, self.axis.text(), self.bc.name(), self.trailing)
    }
    pub fn lanes(&self) -> usize {
        self.trailing.iter().product()
    }
}

/// a quantity of the interpolant that an obligation talks about
#[derive(Clone, Debug)]
pub enum Qty {
    /// order-th derivative of piece i at abscissa `at` (None: for every q - only meaningful for order >= 3)
    Piece { i: usize, order: usize, at: Option<Rat> },
    Y(usize),
    VL,
    VR,
    Zero,
}
#[derive(Clone, Debug)]
pub struct Obl {
    pub family: String,
    pub name: String,
    pub lhs: Qty,
    pub rhs: Qty,
}

pub fn c02_obligations(n: usize, x: &[Rat]) -> Vec<Obl> {
    let mut v = vec![];
    let p = |i, order, at| Qty::Piece { i, order, at };
    for i in 0..n - 1 {
        v.push(Obl { family: "interp".into(), name: format!("interp-left[{i}]"), lhs: p(i, 0, Some(x[i])), rhs: Qty::Y(i) });
        v.push(Obl { family: "interp".into(), name: format!("interp-right[{i}]"), lhs: p(i, 0, Some(x[i + 1])), rhs: Qty::Y(i + 1) });
        v.push(Obl { family: "cubic".into(), name: format!("cubic[{i}]"), lhs: p(i, 4, None), rhs: Qty::Zero });
        if i > 0 {
            v.push(Obl { family: "C1".into(), name: format!("C1[{i}]"), lhs: p(i - 1, 1, Some(x[i])), rhs: p(i, 1, Some(x[i])) });
            v.push(Obl { family: "C2".into(), name: format!("C2[{i}]"), lhs: p(i - 1, 2, Some(x[i])), rhs: p(i, 2, Some(x[i])) });
        }
    }
    v
}
pub fn c03_obligations(n: usize, x: &[Rat], bc: &Bc, lane: usize) -> Vec<Obl> {
    let mut v = vec![];
    let p = |i, order, at| Qty::Piece { i, order, at };
    let (first, last) = (0usize, n - 2);
    match bc.ends(lane) {
        None => {
            v.push(Obl { family: "per-d1".into(), name: "per-d1".into(), lhs: p(first, 1, Some(x[0])), rhs: p(last, 1, Some(x[n - 1])) });
            v.push(Obl { family: "per-d2".into(), name: "per-d2".into(), lhs: p(first, 2, Some(x[0])), rhs: p(last, 2, Some(x[n - 1])) });
        }
        Some((l, r)) => {
            match l {
                End::Nak => v.push(Obl { family: "nak-left".into(), name: "nak-left".into(), lhs: p(0, 3, None), rhs: p(1, 3, None) }),
                End::Nat => v.push(Obl { family: "nat-left".into(), name: "nat-left".into(), lhs: p(first, 2, Some(x[0])), rhs: Qty::Zero }),
                End::Cla => v.push(Obl { family: "cla-left".into(), name: "cla-left".into(), lhs: p(first, 1, Some(x[0])), rhs: Qty::Zero }),
                End::D1 => v.push(Obl { family: "d1-left".into(), name: "d1-left".into(), lhs: p(first, 1, Some(x[0])), rhs: Qty::VL }),
                End::D2 => v.push(Obl { family: "d2-left".into(), name: "d2-left".into(), lhs: p(first, 2, Some(x[0])), rhs: Qty::VL }),
            }
            match r {
                End::Nak => v.push(Obl { family: "nak-right".into(), name: "nak-right".into(), lhs: p(n - 3, 3, None), rhs: p(n - 2, 3, None) }),
                End::Nat => v.push(Obl { family: "nat-right".into(), name: "nat-right".into(), lhs: p(last, 2, Some(x[n - 1])), rhs: Qty::Zero }),
                End::Cla => v.push(Obl { family: "cla-right".into(), name: "cla-right".into(), lhs: p(last, 1, Some(x[n - 1])), rhs: Qty::Zero }),
                End::D1 => v.push(Obl { family: "d1-right".into(), name: "d1-right".into(), lhs: p(last, 1, Some(x[n - 1])), rhs: Qty::VR }),
                End::D2 => v.push(Obl { family: "d2-right".into(), name: "d2-right".into(), lhs: p(last, 2, Some(x[n - 1])), rhs: Qty::VR }),
            }
            if n == 3 && l == End::Nak && r == End::Nak {
                // the parabola through the three points
                v.push(Obl { family: "nak3-parabola".into(), name: "nak3-parabola[0]".into(), lhs: p(0, 3, None), rhs: Qty::Zero });
                v.push(Obl { family: "nak3-parabola".into(), name: "nak3-parabola[1]".into(), lhs: p(1, 3, None), rhs: Qty::Zero });
            }
        }
    }
    v
}

pub struct Symbols {
    pub x: Vec<Sym>,
    pub y: Vec<Vec<Sym>>, // [i][lane]
    pub vl: Vec<Sym>,
    pub vr: Vec<Sym>,
    pub q: Sym,
}
pub fn make_symbols(cfg: &Cfg) -> Symbols {
    let (n, lanes) = (cfg.axis.n(), cfg.lanes());
    let mut y: Vec<Vec<Sym>> = (0..n).map(|i| (0..lanes).map(|j| Sym::var(&format!("y{i}_{j}"))).collect()).collect();
    if cfg.bc.is_periodic() {
        y[n - 1] = y[0].clone();
    }
    Symbols { x: cfg.axis.syms(), y, vl: (0..lanes).map(|j| Sym::var(&format!("vl{j}"))).collect(), vr: (0..lanes).map(|j| Sym::var(&format!("vr{j}"))).collect(), q: Sym::var("q") }
}
pub fn problem_of(cfg: &Cfg, s: &Symbols, extrapolate: bool) -> SplineProblem<Sym> {
    let n = cfg.axis.n();
    let mut shape = vec![n];
    shape.extend(&cfg.trailing);
    let flat: Vec<Sym> = s.y.iter().flat_map(|r| r.iter().copied()).collect();
    SplineProblem { x: s.x.clone(), data: ArrayD::from_shape_vec(IxDyn(&shape), flat).unwrap(), bc: cfg.bc.clone(), vl: s.vl.clone(), vr: s.vr.clone(), extrapolate }
}

/// One feasible way the real code answers a query inside an interval: the decisions it took on the data and the
/// boundary values while building (`build`, empty on a build that does not look at the values) and the per-lane terms
pub struct Piece {
    pub build: Vec<Lit>,
    pub terms: Vec<Sym>,
}
fn build_key(b: &[Lit]) -> String {
    let mut v: Vec<String> = b.iter().map(|l| format!("{l:?}")).collect();
    v.sort();
    v.join(";")
}

/// Explore the real code for a query strictly inside interval i; returns the distinct per-lane piece terms
/// of all feasible paths, and non-Ok outcomes as text
pub fn pieces_of_interval(chk: &mut Chk, cfg: &Cfg, s: &Symbols, prob: &SplineProblem<Sym>, i: usize) -> (Vec<Vec<Sym>>, Vec<String>) {
    let (ps, bad) = piece_cases_of_interval(chk, cfg, s, prob, i);
    let mut pieces: Vec<Vec<Sym>> = vec![];
    for p in ps {
        if !pieces.iter().any(|q| q.iter().zip(&p.terms).all(|(a, b)| a.0 == b.0)) {
            pieces.push(p.terms);
        }
    }
    (pieces, bad)
}

/// as `pieces_of_interval`, keeping apart the paths that differ in decisions taken on the data (build cases): a
/// piece is only comparable with the pieces of the same build case, and its obligations hold under that case
pub fn piece_cases_of_interval(chk: &mut Chk, cfg: &Cfg, s: &Symbols, prob: &SplineProblem<Sym>, i: usize) -> (Vec<Piece>, Vec<String>) {
    let n = cfg.axis.n();
    let mut ecfg = ExploreCfg::new(Mode::R, n - 1);
    ecfg.timeout_ms = cfg.timeout_ms;
    let (paths, st) = explore(&ecfg, || {
        Sym::assume_lt(s.x[i], s.q);
        Sym::assume_lt(s.q, s.x[i + 1]);
        prob.eval(&[s.q])
    });
    chk.add_explore_stats(paths.len(), &st);
    let mut pieces: Vec<Piece> = vec![];
    let mut bad = vec![];
    for p in &paths {
        match &p.result {
            Ok(Ok(v)) => {
                let t = v[0].clone();
                let build: Vec<Lit> = p.pc.iter().filter(|l| !lit_vars(l).iter().any(|v| v == "q")).cloned().collect();
                let key = build_key(&build);
                if !pieces.iter().any(|q| build_key(&q.build) == key && q.terms.iter().zip(&t).all(|(a, b)| a.0 == b.0)) {
                    pieces.push(Piece { build, terms: t });
                }
            }
            Ok(Err(e)) => bad.push(format!("returned error: {e}")),
            Err(m) => bad.push(format!("panicked: {m}")),
        }
    }
    // vacuity: at least one feasible Ok path, and its path condition is satisfiable
    if let Some(p) = paths.iter().find(|p| matches!(p.result, Ok(Ok(_)))) {
        let pc = chk.pc(&p.pc);
        chk.witness(&format!("feasible-ok-path[interval {i}]"), &pc);
    } else {
        chk.rep.errors.push(format!("{}: no Ok path for interval {i}", chk.cfg_name));
    }
    (pieces, bad)
}

fn qty_term(pieces: &[Vec<Sym>], s: &Symbols, lane: usize, q: &Qty) -> Sym {
    match q {
        Qty::Piece { i, order, at } => {
            let d = diff_n(pieces[*i][lane], s.q, *order);
            match at {
                Some(r) => subst(d, s.q, Sym::rat(r.0, r.1)),
                None => d,
            }
        }
        Qty::Y(i) => s.y[*i][lane],
        Qty::VL => s.vl[lane],
        Qty::VR => s.vr[lane],
        Qty::Zero => Sym::int(0),
    }
}

/// exact evaluation of a quantity against the real crate run in exact rational arithmetic (all inputs
/// constants): piece derivatives are recovered from 4 (5 for the cubic-ness test) evaluations strictly
/// inside the interval by divided differences.
fn qty_exact(prob: &SplineProblem<Sym>, x: &[Rat], lane: usize, q: &Qty) -> Result<Sym, String> {
    match q {
        Qty::Piece { i, order, at } => {
            let (xl, xr) = (Sym::rat(x[*i].0, x[*i].1), Sym::rat(x[*i + 1].0, x[*i + 1].1));
            let h = xr - xl;
            let t: Vec<Sym> = [1, 2, 3, 4, 5].iter().map(|k| xl + h * Sym::rat(*k, 6)).collect();
            let vals = run_concrete(Mode::R, || prob.eval(&t))??;
            let v: Vec<Sym> = vals.iter().map(|r| r[lane]).collect();
            let c = newton4([t[0], t[1], t[2], t[3]], [v[0], v[1], v[2], v[3]]);
            if *order == 4 {
                // cubic-ness: the 5th sample must lie on the cubic through the first four (difference returned)
                let pred = newton4_derivs([t[0], t[1], t[2], t[3]], c, t[4], Sym::int(2), Sym::int(6))[0];
                return Ok(v[4] - pred);
            }
            let at = match at {
                Some(r) => Sym::rat(r.0, r.1),
                None => t[0],
            };
            Ok(newton4_derivs([t[0], t[1], t[2], t[3]], c, at, Sym::int(2), Sym::int(6))[*order])
        }
        Qty::Y(i) => {
            let l = prob.lanes();
            Ok(*prob.data.iter().nth(*i * l + lane).unwrap())
        }
        Qty::VL => Ok(prob.vl[lane]),
        Qty::VR => Ok(prob.vr[lane]),
        Qty::Zero => Ok(Sym::int(0)),
    }
}
fn qty_f64(prob: &SplineProblem<f64>, x: &[f64], lane: usize, q: &Qty) -> Result<f64, String> {
    match q {
        Qty::Piece { i, order, at } => {
            let (xl, xr) = (x[*i], x[*i + 1]);
            let h = xr - xl;
            let t: Vec<f64> = [1.0, 2.0, 3.0, 4.0, 5.0].iter().map(|k| xl + h * k / 6.0).collect();
            let vals = prob.eval(&t)?;
            let v: Vec<f64> = vals.iter().map(|r| r[lane]).collect();
            let c = newton4([t[0], t[1], t[2], t[3]], [v[0], v[1], v[2], v[3]]);
            if *order == 4 {
                return Ok(v[4] - newton4_derivs([t[0], t[1], t[2], t[3]], c, t[4], 2.0, 6.0)[0]);
            }
            Ok(newton4_derivs([t[0], t[1], t[2], t[3]], c, at.map(|r| r.to_f64()).unwrap_or(t[0]), 2.0, 6.0)[*order])
        }
        Qty::Y(i) => Ok(*prob.data.iter().nth(*i * prob.lanes() + lane).unwrap()),
        Qty::VL => Ok(prob.vl[lane]),
        Qty::VR => Ok(prob.vr[lane]),
        Qty::Zero => Ok(0.0),
    }
}

/// Replay a counterexample (values of all data / boundary symbols) against the real crate, exactly.
/// Returns (reproduced, replay record)
pub fn replay_model(cfg: &Cfg, ob: &Obl, lane: usize, model: &BTreeMap<String, Rat>) -> (Option<bool>, Json) {
    let (n, lanes) = (cfg.axis.n(), cfg.lanes());
    let get = |name: &str| model.get(name).copied().unwrap_or(Rat(0, 1));
    let yname = |i: usize, j: usize| if cfg.bc.is_periodic() && i == n - 1 { format!("y0_{j}") } else { format!("y{i}_{j}") };
    let mut shape = vec![n];
    shape.extend(&cfg.trailing);
    let mut rec = Json::obj();
    rec.set("config", cfg.name());
    rec.set("axis", cfg.axis.x.iter().map(|r| r.to_string()).collect::<Vec<_>>());
    rec.set("boundary", cfg.bc.name());
    rec.set("trailing_shape", cfg.trailing.iter().map(|u| *u as i64).collect::<Vec<_>>());
    rec.set("lane", lane);
    rec.set("obligation", ob.name.as_str());
    let mut mj = Json::obj();
    for (k, v) in model {
        mj.set(k, v.to_string());
    }
    rec.set("model", mj);
    // exact
    let exact = (|| -> Result<(Sym, Sym), String> {
        let c = |r: Rat| Sym::rat(r.0, r.1);
        let flat: Vec<Sym> = (0..n).flat_map(|i| (0..lanes).map(move |j| (i, j))).map(|(i, j)| c(get(&yname(i, j)))).collect();
        let prob = SplineProblem {
            x: cfg.axis.syms(),
            data: ArrayD::from_shape_vec(IxDyn(&shape), flat).unwrap(),
            bc: cfg.bc.clone(),
            vl: (0..lanes).map(|j| c(get(&format!("vl{j}")))).collect(),
            vr: (0..lanes).map(|j| c(get(&format!("vr{j}")))).collect(),
            extrapolate: false,
        };
        Ok((qty_exact(&prob, &cfg.axis.x, lane, &ob.lhs)?, qty_exact(&prob, &cfg.axis.x, lane, &ob.rhs)?))
    })();
    let mut reproduced = None;
    match exact {
        Ok((l, r)) => match (l.konst(), r.konst()) {
            (Some(a), Some(b)) if !with_ctx(|c| c.overflowed) => {
                rec.set("exact_lhs", a.to_string());
                rec.set("exact_rhs", b.to_string());
                reproduced = Some(a != b);
            }
            _ => {
                rec.set("exact", "not available (i128 overflow in exact replay)");
            }
        },
        Err(e) => {
            rec.set("exact", format!("exact replay failed: {e}"));
        }
    }
    // native f64 (informational, and the fallback when exact arithmetic overflowed)
    let xf: Vec<f64> = cfg.axis.x.iter().map(|r| r.to_f64()).collect();
    let flat: Vec<f64> = (0..n).flat_map(|i| (0..lanes).map(move |j| (i, j))).map(|(i, j)| get(&yname(i, j)).to_f64()).collect();
    let pf = SplineProblem {
        x: xf.clone(),
        data: ArrayD::from_shape_vec(IxDyn(&shape), flat).unwrap(),
        bc: cfg.bc.clone(),
        vl: (0..lanes).map(|j| get(&format!("vl{j}")).to_f64()).collect(),
        vr: (0..lanes).map(|j| get(&format!("vr{j}")).to_f64()).collect(),
        extrapolate: false,
    };
    if let (Ok(l), Ok(r)) = (qty_f64(&pf, &xf, lane, &ob.lhs), qty_f64(&pf, &xf, lane, &ob.rhs)) {
        rec.set("f64_lhs", l);
        rec.set("f64_rhs", r);
        let scale = l.abs().max(r.abs()).max(1.0);
        rec.set("f64_relative_difference", (l - r).abs() / scale);
        if reproduced.is_none() {
            // divided differences in f64 lose ~1e-9 at most on these well-separated samples
            reproduced = Some((l - r).abs() / scale > 1e-6);
        }
    }
    (reproduced, rec)
}

pub fn check_config(prop: &str, cfg: &Cfg) -> Report {
    with_ctx(|c| c.reset_all());
    let mut chk = Chk::new(Mode::R, cfg.timeout_ms);
    chk.begin_config(&cfg.name());
    let n = cfg.axis.n();
    let lanes = cfg.lanes();
    let s = make_symbols(cfg);
    let prob = problem_of(cfg, &s, false);
    // pieces of every interval, per build case
    let mut per_interval: Vec<Vec<Piece>> = vec![];
    for i in 0..n - 1 {
        let (ps, bad) = piece_cases_of_interval(&mut chk, cfg, &s, &prob, i);
        for b in bad {
            chk.finding(&format!("{prop}:in-range-query-not-answered"), &format!("{}: query inside interval {i} {b}", cfg.name()), Json::obj().with("config", cfg.name()).with("interval", i).with("outcome", b.as_str()), Some(true));
        }
        if ps.is_empty() {
            return chk.rep;
        }
        per_interval.push(ps);
    }
    let all_vars: Vec<String> = with_ctx(|c| c.var_names.clone());
    for v in &all_vars {
        chk.term(Sym::var(v)); // make sure every model variable is declared in the obligation session
    }
    // build cases: the unchanged crate builds without looking at the values (one case, no assumptions); a build that
    // branches on data or boundary values is checked case by case, each under the decisions that select it
    let mut cases: Vec<Vec<Lit>> = vec![];
    for p in &per_interval[0] {
        if !cases.iter().any(|c| build_key(c) == build_key(&p.build)) {
            cases.push(p.build.clone());
        }
    }
    if cases.len() > 1 || !cases[0].is_empty() {
        chk.rep.notes.push("the build branches on data / boundary values: obligations are discharged per build case under its decisions".into());
    }
    let mut first_canary_done = false;
    for case in &cases {
        let key = build_key(case);
        let under: Vec<String> = chk.pc(case);
        let mut pieces: Vec<Vec<Sym>> = vec![];
        for (i, ps) in per_interval.iter().enumerate() {
            let mine: Vec<&Piece> = ps.iter().filter(|p| build_key(&p.build) == key).collect();
            if mine.is_empty() {
                chk.rep.errors.push(format!("{}: build case {key} has no path in interval {i} (the build is not a function of the inputs alone?)", cfg.name()));
                return chk.rep;
            }
            // different feasible lookup paths (other initial guesses) returned different terms for the same interval
            // and the same build: they must be the same function
            for other in &mine[1..] {
                for j in 0..lanes {
                    let mut a = under.clone();
                    a.push(format!("(not (= {} {}))", chk.term(mine[0].terms[j]), chk.term(other.terms[j])));
                    if let Verdict::Cex(_) = chk.must_unsat("piece-unique", &format!("piece-unique[{i}] lane {j}"), &a, &[]) {
                        chk.finding(&format!("{prop}:piece-depends-on-lookup-path"), &format!("{}: interval {i} lane {j}: two feasible lookup paths return different polynomials", cfg.name()), Json::obj().with("config", cfg.name()), None);
                    }
                }
            }
            pieces.push(mine[0].terms.clone());
        }
        for lane in 0..lanes {
            let obls = if prop == "C02" { c02_obligations(n, &cfg.axis.x) } else { c03_obligations(n, &cfg.axis.x, &cfg.bc, lane) };
            for ob in &obls {
                let (l, r) = (qty_term(&pieces, &s, lane, &ob.lhs), qty_term(&pieces, &s, lane, &ob.rhs));
                let name = format!("{} lane {lane}", ob.name);
                if l.0 == r.0 {
                    chk.trivially_holds(&ob.family);
                    continue;
                }
                let mut a = under.clone();
                a.push(format!("(not (= {} {}))", chk.term(l), chk.term(r)));
                match chk.must_unsat(&ob.family, &name, &a, &all_vars) {
                    Verdict::Holds | Verdict::Inconclusive(_) => {}
                    Verdict::Cex(vals) => {
                        let model: BTreeMap<String, Rat> = vals.iter().filter_map(|(k, v)| sx_to_rat(v).map(|r| (k.clone(), r))).collect();
                        let (rep, rec) = replay_model(cfg, ob, lane, &model);
                        let class = if cfg.axis.name == "uniform" { "uniform-axis" } else { "non-uniform-axis" };
                        let key = format!("{prop}:{}:{}:n{}", ob.family, class, if n == 3 { "=3" } else { ">=4" });
                        chk.finding(&key, &format!("{}: obligation {} fails for lane {lane}", cfg.name(), ob.name), rec, rep);
                    }
                }
                // canary: the same quantity compared against a deliberately wrong right-hand side must be refutable
                if !first_canary_done {
                    if let Qty::Piece { i, order, at: Some(_) } = &ob.lhs {
                        let wrong_at = cfg.axis.x[*i].add(cfg.axis.x[*i + 1]).unwrap().div(Rat(2, 1)).unwrap();
                        let wl = qty_term(&pieces, &s, lane, &Qty::Piece { i: *i, order: *order, at: Some(wrong_at) });
                        let mut a = under.clone();
                        a.push(format!("(not (= {} {}))", chk.term(wl), chk.term(r)));
                        chk.canary(&format!("{} evaluated at the interval midpoint instead", ob.name), &a);
                        first_canary_done = true;
                    }
                }
            }
        }
    }
    if prop == "C02" {
        // through the data at the API level: q = x_i exactly (the lookup picks the piece itself)
        for i in 0..n {
            let qi = s.x[i];
            let mut ecfg = ExploreCfg::new(Mode::R, n - 1);
            ecfg.timeout_ms = cfg.timeout_ms;
            let (paths, st) = explore(&ecfg, || prob.eval(&[qi]));
            chk.add_explore_stats(paths.len(), &st);
            if paths.is_empty() {
                chk.rep.errors.push(format!("{}: no feasible path for the query at knot {i}", cfg.name()));
            }
            for p in &paths {
                match &p.result {
                    Ok(Ok(v)) => {
                        let under = chk.pc(&p.pc);
                        for lane in 0..lanes {
                            if v[0][lane].0 == s.y[i][lane].0 {
                                chk.trivially_holds("knot-api");
                                continue;
                            }
                            let mut a = under.clone();
                            a.push(format!("(not (= {} {}))", chk.term(v[0][lane]), chk.term(s.y[i][lane])));
                            if let Verdict::Cex(vals) = chk.must_unsat("knot-api", &format!("knot-api[{i}] lane {lane}"), &a, &all_vars) {
                                let mut rec = Json::obj().with("config", cfg.name()).with("knot", i).with("lane", lane);
                                let mut mj = Json::obj();
                                for (k, v) in &vals {
                                    mj.set(k, v.as_str());
                                }
                                rec.set("model", mj);
                                chk.finding(&format!("C02:knot-not-reproduced"), &format!("{}: interp(x[{i}]) != data[{i}] for lane {lane}", cfg.name()), rec, None);
                            }
                        }
                    }
                    other => chk.finding(&format!("C02:knot-query-not-answered"), &format!("{}: query at knot {i}: {:?}", cfg.name(), other.as_ref().map(|r| r.as_ref().map(|_| ()))), Json::obj().with("config", cfg.name()).with("knot", i), Some(true)),
                }
            }
        }
    }
    chk.rep
}

pub fn configs(prop: &str, args: &Args) -> Vec<Cfg> {
    let thorough = args.thorough();
    let (nmax, per_n) = if thorough { (16, 40) } else { (7, 12) };
    let timeout_ms = if thorough { 120_000 } else { 10_000 };
    let pairs: Vec<(End, End)> = End::ALL.iter().flat_map(|l| End::ALL.iter().map(move |r| (*l, *r))).collect();
    let mut out = vec![];
    // quick tier: besides n = 3..7 a few long axes, so that defects that only show deeper in the arrays (rows beyond
    // 8, search windows) are seen on every change
    let mut sizes: Vec<(usize, usize)> = (3..=nmax).map(|n| (n, per_n)).collect();
    if !thorough {
        sizes.extend([(9, 7), (11, 7), (13, 6)]);
    }
    for (n, per_n) in sizes {
        for (ai, axis) in axis_family(n, per_n, args.seed).into_iter().enumerate() {
            let mut add = |bc: Bc, trailing: Vec<usize>| out.push(Cfg { axis: axis.clone(), bc, trailing, timeout_ms });
            let tr = |k: usize| -> Vec<usize> {
                match k % 3 {
                    0 => vec![],
                    1 => vec![2],
                    _ => vec![1, 2],
                }
            };
            // whole-data-set boundaries, trailing shape rotating over (), (2), (1,2)
            for (bi, bc) in [Bc::NotAKnot, Bc::Natural, Bc::Clamped, Bc::Periodic].into_iter().enumerate() {
                add(bc, tr(ai + bi));
            }
            // single-lane Individual with Mixed pairs: quick = 6 pairs rotating with the axis index, thorough = all 25
            let take = if thorough { 25 } else { 6 };
            for k in 0..take {
                let (l, r) = pairs[(ai * take + k) % 25];
                add(Bc::Individual(vec![Row::Mixed(l, r)]), vec![]);
            }
            // two lanes with different conditions (per-lane dispatch), incl. the non-Mixed row spellings
            let (l0, r0) = pairs[(ai * 7 + 3) % 25];
            let (l1, r1) = pairs[(ai * 11 + 8) % 25];
            add(Bc::Individual(vec![Row::Mixed(l0, r0), Row::Mixed(l1, r1)]), vec![2]);
            let plain = [End::Nak, End::Nat, End::Cla];
            add(Bc::Individual(vec![Row::Plain(plain[ai % 3]), Row::Mixed(l1, r0)]), vec![2]);
            if thorough || ai % 4 == 0 {
                // 2x2 (thorough: 2x3) lanes, a different pair per lane: exercises the recursive dispatch over two trailing axes
                let shape = if thorough { vec![2, 3] } else { vec![2, 2] };
                let cnt: usize = shape.iter().product();
                let rows = (0..cnt).map(|j| { let (l, r) = pairs[(ai * 5 + j * 6 + 1) % 25]; if j == 1 { Row::Plain(plain[(ai + j) % 3]) } else { Row::Mixed(l, r) } }).collect();
                add(Bc::Individual(rows), shape);
            }
            if (thorough && ai % 8 == 1) || (!thorough && n == 4 && ai % 6 == 0) {
                // three trailing axes where most lanes share one condition and a single lane differs (a shortcut that
                // decides "all lanes equal" from a subset of the lanes must not fire)
                add(Bc::Individual(vec![Row::Plain(End::Nat), Row::Plain(End::Cla)]), vec![1, 2, 1]);
                let rows = (0..8).map(|j| if j == 2 { Row::Mixed(End::Cla, End::Nak) } else { Row::Mixed(End::D1, End::D2) }).collect();
                add(Bc::Individual(rows), vec![2, 2, 2]);
            }
            if (thorough && ai % 8 == 0) || (!thorough && n == 5 && ai % 6 == 0) {
                add(Bc::NotAKnot, vec![2, 1, 2]);
                let rows = (0..4).map(|j| { let (l, r) = pairs[(ai + j * 6 + 2) % 25]; Row::Mixed(l, r) }).collect();
                add(Bc::Individual(rows), vec![2, 1, 2]);
            }
        }
    }
    let _ = prop;
    out
}

pub const FUNCTIONS: &[&str] = &[
    "interp1d::Interp1DBuilder::new",
    "interp1d::Interp1DBuilder::x",
    "interp1d::Interp1DBuilder::strategy",
    "interp1d::Interp1DBuilder::build",
    "interp1d::strategies::cubic_spline::CubicSpline::calc_coefficients",
    "interp1d::strategies::cubic_spline::CubicSpline::solve_for_k",
    "interp1d::strategies::cubic_spline::CubicSpline::solve_for_k_individual",
    "interp1d::strategies::cubic_spline::CubicSpline::thomas",
    "interp1d::strategies::cubic_spline::CubicSplineStrategy::interp_into",
    "interp1d::Interp1D::interp",
    "interp1d::Interp1D::is_in_range",
    "interp1d::Interp1D::get_index_left_of",
    "interp1d::Interp1D::index_point",
    "vector_extensions::VectorExtensions::get_lower_index",
    "vector_extensions::VectorExtensions::monotonic_prop",
    "interp1d::strategies::linear::Linear::calc_frac",
];

pub fn run(prop: &str, args: &Args) -> Report {
    let cfgs = configs(prop, args);
    let mut rep = par_run(cfgs, args.threads, |c| check_config(prop, c));
    crate::validate::validate_spline(args.seed, &mut rep);
    for f in FUNCTIONS {
        rep.functions.insert(f.to_string());
    }
    let thorough = args.thorough();
    rep.bounds.push(format!("axis length n = 3..{} (quick: plus 9, 11, 13 with 4-5 axes each); {} concrete rational axes per n (family of DESIGN 5.0, pairwise distinct interval lengths except the uniform member; seed-generated members use VERIF_SEED)", if thorough { 16 } else { 7 }, if thorough { 40 } else { 12 }));
    rep.bounds.push("boundaries: NotAKnot, Natural, Clamped, Periodic for the whole data set; Individual with Mixed(left,right) over the 25 ordered pairs of {NotAKnot,Natural,Clamped,FirstDeriv(v),SecondDeriv(v)} (quick: 6 pairs per axis, rotating; thorough: all 25 per axis); per-lane assignments over 2, 2x2, 2x1x2, 1x2x1 and 2x2x2 (all lanes equal but one) lanes (thorough also 2x3)".into());
    rep.bounds.push("trailing data shapes (), (2), (1,2), (2,2) [thorough: (2,3), (2,1,2)]; every data value, FirstDeriv/SecondDeriv value and the query are solver variables (reals)".into());
    rep.outside.push("symbolic (non-concrete) axes: NRA queries with symbolic spline axes are not decided by z3/cvc5 (DESIGN section 4)".into());
    rep.outside.push("floating-point rounding (layer N): the claim is about the real-number semantics of the executed operation sequence".into());
    rep.outside.push("axis lengths above the bound".into());
    rep.assumptions.insert("mode R: float operations read as exact real operations".into());
    rep.assumptions.insert("Sym models of NumCast::from (exact integers / dyadic constants), ToPrimitive::to_usize (truncation), Pow with exponent 2 (x*x) - validated concolically against native f64 on every run".into());
    rep.assumptions.insert("symbolic differentiation/substitution helpers (engine/calc.rs); counterexamples are re-validated without them by divided differences over exact evaluations of the real crate".into());
    rep
}
