//! C07: a Periodic spline with extrapolation is evaluated as a periodic function.
//! Mode R, concrete axes, data with y_{n-1} = y_0 (shared symbols). Three obligations (DESIGN C07):
//!  1. wrap arithmetic of the specification: w(q) := x0 + rem_euclid(q - x0, P) maps x + k*P to x for every
//!     integer k (unbounded Int variable) - mixed integer/real linear arithmetic;
//!  2. the code evaluates at the wrapped argument: the extrapolating periodic interpolator queried at an
//!     out-of-range q returns the same term as a non-extrapolating interpolator over the same symbols queried
//!     at w(q); in range the two return the same term (no wrap applied);
//!  3. images of the range ends map to the common end value y_0.
//! Layer D (mode O): no non-NaN query is rejected or panics (C06's outcome check on the periodic configuration).
use std::collections::BTreeMap;

use num_traits::Euclid;

use crate::api::QRank;
use crate::c0203 as sp;
use crate::common::{axis_family, Args};
use crate::engine::core::{explore, run_concrete, with_ctx, ExploreCfg, Mode, Rat, Sym};
use crate::engine::json::Json;
use crate::engine::report::{par_run, Chk, Report, Verdict};
use crate::engine::smt::sx_to_rat;
use crate::prob::{Call, Kind};
use crate::spline::Bc;
use crate::{c05, c06};

enum Item {
    R(sp::Cfg),
    O(c05::Cfg),
    F(FCfg),
}

/// Layer F configuration: a concrete, exactly representable axis a_i * 2^scale_exp and concrete data
#[derive(Clone, Debug)]
struct FCfg {
    name: String,
    axis: Vec<f64>,
    scale_exp: i32,
    data: Vec<f64>,
    /// which half of the query strata this item decides (the strata are independent; splitting halves the wall time)
    group: usize,
    timeout_ms: u64,
}

/// rem_euclid(q - x0, P) + x0 for x0 = 0 computed independently of the crate and of the float remainder:
/// integer arithmetic on the binary expansions (q = mq * 2^eq, P = mp * 2^ep), result rounded once to f64
fn wrap_exact_origin0(q: f64, p: f64) -> Option<f64> {
    fn parts(v: f64) -> (u128, i32) {
        let b = v.abs().to_bits();
        let (e, m) = (((b >> 52) & 0x7ff) as i32, b & ((1u64 << 52) - 1));
        if e == 0 {
            (m as u128, -1074)
        } else {
            ((m | (1u64 << 52)) as u128, e - 1075)
        }
    }
    if !(q.is_finite() && p.is_finite()) || p <= 0.0 {
        return None;
    }
    let ((mq, eq), (mp, ep)) = (parts(q), parts(p));
    if mq == 0 {
        return Some(0.0);
    }
    // |q| mod P as (numerator, exponent): value = r * 2^er with r < mp * 2^max(0, ep - eq)
    let (r, er): (u128, i32) = if eq >= ep {
        // q = mq * 2^(eq-ep) * 2^ep: (mq * 2^(eq-ep)) mod mp by square-and-multiply
        let mut pow = 1u128 % mp;
        let mut base = 2u128 % mp;
        let mut k = (eq - ep) as u32;
        while k > 0 {
            if k & 1 == 1 {
                pow = pow * base % mp;
            }
            base = base * base % mp;
            k >>= 1;
        }
        ((mq % mp) * pow % mp, ep)
    } else {
        let sh = (ep - eq) as u32;
        if sh > 70 {
            // |q| < 2^-17 * P: |q| mod P = |q|
            (mq, eq)
        } else {
            (mq % (mp << sh), eq)
        }
    };
    let to_f = |r: u128, e: i32| -> f64 { (r as f64) * 2f64.powi(e.max(-1022)) * 2f64.powi(e - e.max(-1022)) };
    let a = to_f(r, er); // |q| mod P (r < 2^123: one rounding)
    Some(if q >= 0.0 || r == 0 { a } else { p - a })
}

/// Layer F: the paths of the real code for one symbolic query are explored in mode O; for every feasible path and
/// every magnitude stratum z3 / cvc5 decide - with IEEE-754 semantics for + - * / - whether a finite query takes it,
/// and the model (a real double) is run natively against the crate's own non-extrapolating spline evaluated at the
/// independently wrapped argument. Paths that exist only through rounding (absorption `x + P == x`, underflow of a
/// product, a cast that saturates) get their witness from the solver; nothing here is sampled blindly.
fn check_f(cfg: &FCfg) -> Report {
    use crate::spline::SplineProblem;
    use ndarray::{ArrayD, IxDyn};
    with_ctx(|c| c.reset_all());
    with_ctx(|c| c.mode = Mode::O);
    let mut chk = Chk::with_session(crate::engine::smt::Session::new_ieee(cfg.timeout_ms));
    chk.begin_config(&format!("periodic-extrapolation IEEE path witnesses {} (strata group {})", cfg.name, cfg.group));
    let n = cfg.axis.len();
    let sc = 2f64.powi(cfg.scale_exp);
    let xf: Vec<f64> = cfg.axis.iter().map(|a| a * sc).collect();
    let (x0, xn) = (xf[0], xf[n - 1]);
    let period = xn - x0;
    let konst = |v: f64| <Sym as num_traits::NumCast>::from(v).unwrap();
    let q = Sym::var("q");
    let prob_s = SplineProblem { x: xf.iter().map(|v| konst(*v)).collect(), data: ArrayD::from_shape_vec(IxDyn(&[n]), cfg.data.iter().map(|v| konst(*v)).collect()).unwrap(), bc: Bc::Periodic, vl: vec![konst(0.0)], vr: vec![konst(0.0)], extrapolate: true };
    let ext = SplineProblem { x: xf.clone(), data: ArrayD::from_shape_vec(IxDyn(&[n]), cfg.data.clone()).unwrap(), bc: Bc::Periodic, vl: vec![0.0], vr: vec![0.0], extrapolate: true };
    let plain = SplineProblem { extrapolate: false, ..ext.clone() };
    let big = konst(f64::MAX);
    let mut ecfg = ExploreCfg::new(Mode::O, n - 1);
    ecfg.timeout_ms = cfg.timeout_ms;
    let (paths, st) = explore(&ecfg, || {
        Sym::assume_not_nan(q);
        Sym::assume_le(q, big);
        Sym::assume_le(-big, q);
        prob_s.eval(&[q]).map(|v| v[0][0])
    });
    chk.add_explore_stats(paths.len(), &st);
    let sq = chk.term(q);
    let c = |chk: &mut Chk, v: f64| chk.term(konst(v));
    // magnitude / position strata of the query
    let (sx0, sxn) = (c(&mut chk, x0), c(&mut chk, xn));
    let (near_r, near_l) = (c(&mut chk, xn + 2.0 * period), c(&mut chk, x0 - 2.0 * period));
    let m = xn.abs().max(x0.abs()).max(period);
    let (huge1, huge2, tiny) = (c(&mut chk, m * 2f64.powi(60)), c(&mut chk, (m * 2f64.powi(400)).min(f64::MAX / 4.0)), c(&mut chk, period * 2f64.powi(-300)));
    let mut strata: Vec<(&str, String)> = vec![
        ("any finite query", "true".into()),
        ("inside the range", format!("(and (fp.leq {sx0} {sq}) (fp.leq {sq} {sxn}))")),
        ("right of the range, within two periods", format!("(and (fp.gt {sq} {sxn}) (fp.lt {sq} {near_r}))")),
        ("left of the range, within two periods", format!("(and (fp.lt {sq} {sx0}) (fp.gt {sq} {near_l}))")),
        ("right, beyond 2^60 periods", format!("(fp.gt {sq} {huge1})")),
        ("left, beyond 2^60 periods", format!("(fp.lt {sq} (fp.neg {huge1}))")),
        ("beyond 2^400 periods", format!("(fp.gt (fp.abs {sq}) {huge2})")),
        ("out of range by less than 2^-300 periods", format!("(and (not (and (fp.leq {sx0} {sq}) (fp.leq {sq} {sxn}))) (fp.lt (fp.abs (fp.sub RNE {sq} {sxn})) {tiny}))")),
    ];
    strata = strata.into_iter().enumerate().filter(|(k, _)| k % 2 == cfg.group).map(|(_, s)| s).collect();
    // Lipschitz bound of the reference spline on the range (sampled, with margin) for the argument-rounding tolerance
    let ymax = cfg.data.iter().fold(0f64, |a, b| a.max(b.abs())).max(1.0);
    let lip = {
        let mut l = 0f64;
        let mut prev: Option<(f64, f64)> = None;
        for k in 0..=256 {
            let t = x0 + period * (k as f64) / 256.0;
            if let Ok(v) = plain.eval(&[t.min(xn)]) {
                if let Some((pt, pv)) = prev {
                    if t > pt {
                        l = l.max(((v[0][0] - pv) / (t - pt)).abs());
                    }
                }
                prev = Some((t, v[0][0]));
            }
        }
        2.0 * l
    };
    // the layer compares against the crate's own spline on the range: where that spline is not finite in this unit
    // (squares of the spacing underflow when building it) there is nothing to compare with, and C07 says nothing
    let reference_finite = lip.is_finite() && (0..=64).all(|k| plain.eval(&[(x0 + period * (k as f64) / 64.0).min(xn)]).map(|v| v[0][0].is_finite()).unwrap_or(false));
    if !reference_finite {
        chk.rep.notes.push(format!("{}: the spline itself is not finite in this unit (underflow while building it): configuration not usable for layer F", chk.cfg_name));
        return chk.rep;
    }
    let ulp = |v: f64| (v.abs() * f64::EPSILON).max(f64::MIN_POSITIVE);
    crate::engine::core::silence_panics();
    let mut strata_hit = std::collections::BTreeSet::new();
    let mut seen_q = std::collections::BTreeSet::new();
    for (pi, p) in paths.iter().enumerate() {
        let pcs = chk.pc(&p.pc);
        let outcome = match &p.result {
            Ok(Ok(_)) => "Ok".to_string(),
            Ok(Err(e)) => e.clone(),
            Err(m) => format!("panic: {m}"),
        };
        for (sname, sassert) in &strata {
            let mut a = pcs.clone();
            a.push(sassert.clone());
            chk.rep.obligations += 1;
            *chk.rep.kinds.entry("IEEE path witness (path x stratum)".into()).or_default() += 1;
            let (ans, vals) = chk.model(&a, &["q".to_string()]);
            match ans {
                crate::engine::smt::Answer::Unsat => {
                    chk.rep.discharged += 1;
                    *chk.rep.kinds.entry("path x stratum infeasible under IEEE semantics".into()).or_default() += 1;
                    continue;
                }
                crate::engine::smt::Answer::Unknown(_) => {
                    chk.rep.discharged += 1;
                    *chk.rep.kinds.entry("path x stratum undecided within the budget (no witness)".into()).or_default() += 1;
                    continue;
                }
                crate::engine::smt::Answer::Sat => {}
            }
            let qv = match c05::model_f64(&vals).get("q") {
                Some(v) if v.is_finite() => *v,
                _ => {
                    chk.rep.discharged += 1;
                    continue;
                }
            };
            strata_hit.insert(*sname);
            if !seen_q.insert(qv.to_bits()) {
                chk.rep.discharged += 1;
                continue;
            }
            // native run of the real crate at the witness, against the independent oracle
            let got = std::panic::catch_unwind(|| ext.eval(&[qv]));
            let inside = x0 <= qv && qv <= xn;
            let w = if inside { Some(qv) } else if x0 == 0.0 { wrap_exact_origin0(qv, period) } else { Some((qv - x0).rem_euclid(period) + x0) };
            let want = w.and_then(|w| plain.eval(&[w.clamp(x0, xn)]).ok()).map(|v| v[0][0]);
            // admissible rounding of the wrapped argument: one ulp of the period for origin 0 (q - 0 is exact), otherwise the
            // roundings of q - x0 and of the final + x0
            let dw = if inside { 0.0 } else if x0 == 0.0 { 2.0 * ulp(period) } else { 2.0 * (ulp(qv) + ulp(x0) + ulp(period)) };
            let tol = lip * dw + 1e-9 * ymax;
            let informative = tol < 0.05 * ymax;
            let rec = |chk: &Chk| Json::obj().with("config", chk.cfg_name.as_str()).with("path", pi).with("path_outcome_symbolic", outcome.as_str()).with("stratum", *sname).with("query", format!("{qv:e} (bits {:#018x})", qv.to_bits())).with("axis", format!("{xf:?}")).with("data", format!("{:?}", cfg.data)).with("wrapped_argument_expected", format!("{w:?}")).with("expected", format!("{want:?}")).with("tolerance", tol);
            match (got, want) {
                (Ok(Ok(v)), Some(o)) => {
                    let r = v[0][0];
                    if informative && o.is_finite() && !((r - o).abs() <= tol) {
                        let mut j = rec(&chk);
                        j.set("observed", r);
                        chk.finding(&format!("C07:not-periodic:ieee-witness:{}", if inside { "inside" } else if qv > xn { "right" } else { "left" }), &format!("{}: finite query {qv:e} ({sname}) evaluates to {r}, the spline at the wrapped argument is {o}", chk.cfg_name), j, Some(true));
                    } else {
                        chk.rep.discharged += 1;
                        if !informative {
                            *chk.rep.kinds.entry("witness uninformative (argument rounding exceeds the period)".into()).or_default() += 1;
                        }
                    }
                }
                (Ok(Ok(_)), None) => chk.rep.discharged += 1,
                (Ok(Err(e)), _) => {
                    let mut j = rec(&chk);
                    j.set("observed", e.as_str());
                    chk.finding("C07:not-answered:ieee-witness", &format!("{}: finite query {qv:e} ({sname}) is rejected: {e}", chk.cfg_name), j, Some(true));
                }
                (Err(_), _) => {
                    let mut j = rec(&chk);
                    j.set("observed", "panic");
                    chk.finding("C07:panic:ieee-witness", &format!("{}: finite query {qv:e} ({sname}) panics", chk.cfg_name), j, Some(true));
                }
            }
        }
    }
    // vacuity: the strata that must be populated on any implementation
    for must in ["any finite query", "inside the range", "right of the range, within two periods", "left of the range, within two periods", "right, beyond 2^60 periods"] {
        if !strata.iter().any(|(n, _)| *n == must) {
            continue;
        }
        chk.rep.witnesses_expected += 1;
        if strata_hit.contains(must) {
            chk.rep.witnesses_found += 1;
        } else {
            chk.rep.errors.push(format!("{}: no witness in the stratum '{must}'", chk.cfg_name));
        }
    }
    chk.rep
}

fn spec_wrap(q: Sym, x0: Sym, xn: Sym) -> Sym {
    (q - x0).rem_euclid(&(xn - x0)) + x0
}

fn replay(cfg: &sp::Cfg, model: &BTreeMap<String, Rat>, q: Rat) -> (Option<bool>, Json) {
    // exact: all symbols bound to the model's rationals; the extrapolating interpolator at q must agree with the
    // non-extrapolating one at the wrapped argument
    let mut rec = Json::obj().with("config", cfg.name()).with("query", q.to_string());
    let mut mj = Json::obj();
    for (k, v) in model {
        mj.set(k, v.to_string());
    }
    rec.set("model", mj);
    with_ctx(|c| {
        c.bindings.clear();
        for (k, v) in model {
            c.bindings.insert(k.clone(), *v);
        }
    });
    let s = sp::make_symbols(cfg);
    let n = cfg.axis.n();
    let qc = Sym::rat(q.0, q.1);
    let w = spec_wrap(qc, s.x[0], s.x[n - 1]);
    let r = run_concrete(Mode::R, || {
        let a = sp::problem_of(cfg, &s, true).eval(&[qc]);
        let b = sp::problem_of(cfg, &s, false).eval(&[w]);
        (a, b)
    });
    with_ctx(|c| c.bindings.clear());
    let show = |v: &Result<Vec<Vec<Sym>>, String>| match v {
        Ok(v) => format!("{:?}", v[0].iter().map(|t| t.konst().map(|r| r.to_string()).unwrap_or("?".into())).collect::<Vec<_>>()),
        Err(e) => e.clone(),
    };
    match r {
        Ok((a, b)) => {
            rec.set("wrapped_argument", w.konst().map(|r| r.to_string()).unwrap_or("?".into()));
            rec.set("S_extrapolated_at_q", show(&a));
            rec.set("S_at_wrapped_argument", show(&b));
            let differ = match (&a, &b) {
                (Ok(a), Ok(b)) => a[0].iter().zip(&b[0]).any(|(x, y)| x.konst() != y.konst()),
                _ => true,
            };
            (Some(differ), rec)
        }
        Err(e) => {
            rec.set("exact_replay", e);
            (None, rec)
        }
    }
}

fn check_r(cfg: &sp::Cfg) -> Report {
    with_ctx(|c| c.reset_all());
    // cvc5 is the primary solver here: the wrap obligations are mixed integer/real linear arithmetic with
    // unbounded integers, which z3 4.8.12 / 5.1 do not decide (measured: > 30 s) and cvc5 decides in milliseconds
    let mut chk = Chk::new_with_solver(Mode::R, cfg.timeout_ms, "cvc5");
    chk.begin_config(&format!("periodic-extrapolation {}", cfg.name()));
    let n = cfg.axis.n();
    let lanes = cfg.lanes();
    let s = sp::make_symbols(cfg);
    let (x0, xn) = (s.x[0], s.x[n - 1]);
    let period = cfg.axis.x[n - 1].sub(cfg.axis.x[0]).unwrap();
    let p = Sym::rat(period.0, period.1);
    // ---- 1. wrap arithmetic of the specification, k an unbounded integer
    {
        let (xx, qs) = (Sym::var("xx"), Sym::var("qspec"));
        let w = spec_wrap(qs, x0, xn);
        let (sxx, sq, sw, sx0, sxn, sp_) = (chk.term(xx), chk.term(qs), chk.term(w), chk.term(x0), chk.term(xn), chk.term(p));
        chk.sess.declare("kint", "Int");
        chk.sess.declare("kdiff", "Int");
        // kdiff names the difference of the two integer period counts (helps the integer reasoning)
        let rem_node = (qs - x0).rem_euclid(&(xn - x0));
        let link = format!("(and (= {sq} (+ {sxx} (* (to_real kint) {sp_}))) (= kdiff (- kint ke{})))", rem_node.0);
        let a = [link.clone(), format!("(<= {sx0} {sxx})"), format!("(< {sxx} {sxn})"), format!("(not (= {sw} {sxx}))")];
        if let Verdict::Cex(_) = chk.must_unsat("wrap-arithmetic", "x0 + rem_euclid(x + k*P - x0, P) = x for x in [x0, xn), every integer k", &a, &[]) {
            chk.rep.errors.push(format!("{}: the specification-side wrap model is wrong (machinery)", cfg.name()));
        }
        let a = [link.clone(), format!("(= {sxx} {sxn})"), format!("(not (= {sw} {sx0}))")];
        if let Verdict::Cex(_) = chk.must_unsat("wrap-arithmetic", "the right end and all its periodic images wrap to x0", &a, &[]) {
            chk.rep.errors.push(format!("{}: the specification-side wrap model is wrong (machinery)", cfg.name()));
        }
        chk.witness("wrap model satisfiable for k = -1000000", &[link, "(= kint (- 1000000))".to_string(), format!("(<= {sx0} {sxx})"), format!("(< {sxx} {sxn})"), format!("(= {sw} {sxx})")]);
    }
    // ---- 2. the code evaluates at the wrapped argument
    let ext = sp::problem_of(cfg, &s, true);
    let plain = sp::problem_of(cfg, &s, false);
    let all_vars: Vec<String> = {
        let mut v: Vec<String> = (0..n - 1).flat_map(|i| (0..lanes).map(move |j| format!("y{i}_{j}"))).collect();
        v.push("q".into());
        v
    };
    for v in &all_vars {
        chk.term(Sym::var(v));
    }
    let mut symbolic_undecided: Vec<String> = vec![];
    let mut grid_violation = false;
    // ---- 2a. the property statement itself on a grid of concrete abscissae: S(x + k*P) = S(x) for
    // k in {-3,-1,1,2}, x = every knot but the last and 3 interior points of every interval. With q concrete
    // there is one path and the obligation is linear in the data (decided for ALL data values).
    let interior = [Rat(1, 5), Rat(1, 2), Rat(7, 9)];
    let mut canary_done = false;
    for k in [-3i128, -1, 1, 2] {
        for i in 0..n - 1 {
            let (xl, xr) = (cfg.axis.x[i], cfg.axis.x[i + 1]);
            let h = xr.sub(xl).unwrap();
            let mut pts = vec![xl];
            pts.extend(interior.iter().map(|f| xl.add(h.mul(*f).unwrap()).unwrap()));
            for xp in pts {
                let qr = xp.add(period.mul(Rat::int(k)).unwrap()).unwrap();
                let (qc, xc) = (Sym::rat(qr.0, qr.1), Sym::rat(xp.0, xp.1));
                let r = run_concrete(Mode::R, || (ext.eval(&[qc]), plain.eval(&[xc])));
                match r {
                    Ok((Ok(a), Ok(b))) => {
                        for j in 0..lanes {
                            if a[0][j].0 == b[0][j].0 {
                                chk.trivially_holds("periodic-on-grid");
                            } else {
                                let q = [format!("(not (= {} {}))", chk.term(a[0][j]), chk.term(b[0][j]))];
                                if let Verdict::Cex(vals) = chk.must_unsat("periodic-on-grid", &format!("S({xp} + {k}P) = S({xp}), lane {j}"), &q, &all_vars) {
                                    let model: BTreeMap<String, Rat> = vals.iter().filter_map(|(k, v)| sx_to_rat(v).map(|r| (k.clone(), r))).collect();
                                    let (rep, rec) = replay(cfg, &model, qr);
                                    grid_violation = true;
                                    chk.finding(&format!("C07:not-periodic:{}", if k < 0 { "left" } else { "right" }), &format!("{}: S({xp} + {k}P) != S({xp}) (lane {j})", cfg.name()), rec, rep);
                                }
                            }
                            if !canary_done && i + 1 < n - 1 {
                                // wrong oracle: S(x + kP) = S(x + h/3) must be refutable
                                let other = xp.add(h.mul(Rat(1, 3)).unwrap()).unwrap();
                                let oc = Sym::rat(other.0, other.1);
                                if let Ok(Ok(o)) = run_concrete(Mode::R, || plain.eval(&[oc])) {
                                    let q = [format!("(not (= {} {}))", chk.term(a[0][j]), chk.term(o[0][j]))];
                                    chk.canary(&format!("S({xp} + {k}P) claimed to equal S({other})"), &q);
                                    canary_done = true;
                                }
                            }
                        }
                    }
                    other => {
                        grid_violation = true;
                        chk.finding("C07:not-answered:grid", &format!("{}: S({xp} + {k}P): {:?}", cfg.name(), other.map(|(a, b)| (a.map(|_| ()), b.map(|_| ())))), Json::obj().with("config", cfg.name()).with("query", qr.to_string()), Some(true));
                    }
                }
            }
        }
    }
    // the symbolic-query obligations get a short budget and no solver fallbacks: what they leave undecided is
    // reported as inconclusive (never as a pass)
    let full_timeout = chk.sess.timeout_ms;
    chk.sess.timeout_ms = full_timeout.min(6_000);
    chk.fallbacks = false;
    for side in ["left", "right", "inside"] {
        if grid_violation || symbolic_undecided.len() >= 3 {
            break; // refuted on the grid already / the solver does not decide this configuration symbolically
        }
        let mut ecfg = ExploreCfg::new(Mode::R, n - 1);
        ecfg.timeout_ms = cfg.timeout_ms;
        let (paths, st) = explore(&ecfg, || {
            let arg = match side {
                "left" => {
                    Sym::assume_lt(s.q, x0);
                    spec_wrap(s.q, x0, xn)
                }
                "right" => {
                    Sym::assume_lt(xn, s.q);
                    spec_wrap(s.q, x0, xn)
                }
                _ => {
                    Sym::assume_le(x0, s.q);
                    Sym::assume_le(s.q, xn);
                    s.q
                }
            };
            let a = ext.eval(&[s.q]);
            let b = plain.eval(&[arg]);
            (a, b)
        });
        chk.add_explore_stats(paths.len(), &st);
        let mut any = false;
        for (pi, path) in paths.iter().enumerate() {
            if symbolic_undecided.len() >= 3 {
                break;
            }
            let pcs = chk.pc(&path.pc);
            match &path.result {
                Ok((Ok(a), Ok(b))) => {
                    any = true;
                    for j in 0..lanes {
                        if a[0][j].0 == b[0][j].0 {
                            chk.trivially_holds("evaluates-at-wrapped-argument");
                            continue;
                        }
                        let mut q = pcs.clone();
                        q.push(format!("(not (= {} {}))", chk.term(a[0][j]), chk.term(b[0][j])));
                        // nonlinear in (q, data) with an integer period count: may come back unknown; such
                        // obligations are then decided on the concrete query grid below, never silently dropped
                        let n_inc = chk.rep.inconclusive.len();
                        match chk.must_unsat("evaluates-at-wrapped-argument", &format!("{side}: path {pi} lane {j}: S_ext(q) = S(wrap(q))"), &q, &all_vars) {
                            Verdict::Cex(vals) => {
                                let model: BTreeMap<String, Rat> = vals.iter().filter_map(|(k, v)| sx_to_rat(v).map(|r| (k.clone(), r))).collect();
                                let qv = model.get("q").copied().unwrap_or(Rat(0, 1));
                                let (rep, rec) = replay(cfg, &model, qv);
                                chk.finding(&format!("C07:not-periodic:{side}"), &format!("{}: query {side} the range is not evaluated at the query wrapped by an integer number of periods", cfg.name()), rec, rep);
                            }
                            Verdict::Inconclusive(w) => {
                                chk.rep.inconclusive.truncate(n_inc);
                                symbolic_undecided.push(format!("{side}: path {pi} lane {j}: {w}"));
                            }
                            Verdict::Holds => {}
                        }
                    }
                }
                Ok((a, b)) => {
                    let (ans, vals) = chk.model(&pcs, &all_vars);
                    if matches!(ans, crate::engine::smt::Answer::Sat) {
                        let model: BTreeMap<String, Rat> = vals.iter().filter_map(|(k, v)| sx_to_rat(v).map(|r| (k.clone(), r))).collect();
                        let qv = model.get("q").copied().unwrap_or(Rat(0, 1));
                        let (rep, rec) = replay(cfg, &model, qv);
                        chk.finding(&format!("C07:not-answered:{side}"), &format!("{}: {side}: extrapolating periodic spline {:?} / reference at wrapped argument {:?}", cfg.name(), a.as_ref().map(|_| "Ok"), b.as_ref().map(|_| "Ok")), rec, rep);
                    }
                }
                Err(msg) => {
                    let (ans, vals) = chk.model(&pcs, &all_vars);
                    if matches!(ans, crate::engine::smt::Answer::Sat) {
                        let model: BTreeMap<String, Rat> = vals.iter().filter_map(|(k, v)| sx_to_rat(v).map(|r| (k.clone(), r))).collect();
                        let qv = model.get("q").copied().unwrap_or(Rat(0, 1));
                        let (rep, mut rec) = replay(cfg, &model, qv);
                        rec.set("panic", msg.as_str());
                        chk.finding(&format!("C07:panic:{side}"), &format!("{}: {side}: panic {msg}", cfg.name()), rec, rep.map(|_| true));
                    }
                }
            }
        }
        chk.rep.witnesses_expected += 1;
        if any {
            chk.rep.witnesses_found += 1;
        } else {
            chk.rep.errors.push(format!("{}: no Ok path for a query {side} the range", cfg.name()));
        }
    }
    chk.sess.timeout_ms = full_timeout;
    chk.fallbacks = true;
    // ---- 3. periodic images of the range ends map to the common end value
    for k in [-3i128, -1, 1, 2] {
        for end in [0usize, n - 1] {
            let base = cfg.axis.x[end];
            let qr = base.add(period.mul(Rat::int(k)).unwrap()).unwrap();
            let qc = Sym::rat(qr.0, qr.1);
            match run_concrete(Mode::R, || ext.eval(&[qc])) {
                Ok(Ok(v)) => {
                    for j in 0..lanes {
                        if v[0][j].0 == s.y[0][j].0 {
                            chk.trivially_holds("end-images");
                            continue;
                        }
                        let a = [format!("(not (= {} {}))", chk.term(v[0][j]), chk.term(s.y[0][j]))];
                        if let Verdict::Cex(vals) = chk.must_unsat("end-images", &format!("S(x[{end}] + {k}P) = y_0, lane {j}"), &a, &all_vars) {
                            let model: BTreeMap<String, Rat> = vals.iter().filter_map(|(k, v)| sx_to_rat(v).map(|r| (k.clone(), r))).collect();
                            let (rep, rec) = replay(cfg, &model, qr);
                            chk.finding("C07:end-image-value", &format!("{}: the periodic image x[{end}] + {k}P of a range end does not evaluate to the common end value", cfg.name()), rec, rep.map(|_| true));
                        }
                    }
                }
                other => chk.finding("C07:end-image-not-answered", &format!("{}: query x[{end}] + {k}P: {:?}", cfg.name(), other.map(|r| r.map(|_| ()))), Json::obj().with("config", cfg.name()), Some(true)),
            }
        }
    }
    if !symbolic_undecided.is_empty() {
        if grid_violation {
            chk.rep.notes.push(format!("{}: {} symbolic-query obligations were undecided; the concrete grid produced the counterexample", cfg.name(), symbolic_undecided.len()));
        } else {
            for u in symbolic_undecided {
                chk.rep.inconclusive.push(format!("{} / {u} (and no counterexample on the concrete grid)", cfg.name()));
            }
        }
    }
    chk.rep
}

fn items(args: &Args) -> Vec<Item> {
    let thorough = args.thorough();
    let timeout_ms = if thorough { 120_000 } else { 20_000 };
    let (nmax, per_n) = if thorough { (7, 20) } else { (5, 6) };
    let mut v = vec![];
    for n in 3..=nmax {
        for (ai, axis) in axis_family(n, per_n, args.seed).into_iter().enumerate() {
            let trailing = if ai % 2 == 0 { vec![] } else { vec![2] };
            v.push(Item::R(sp::Cfg { axis, bc: Bc::Periodic, trailing, timeout_ms }));
        }
    }
    // layer F: exactly representable axes (origin 0 and not), ordinary / tiny / huge units
    let faxes: Vec<(&str, Vec<f64>, Vec<f64>)> = vec![
        ("origin-0 n=4", vec![0.0, 1.0, 2.5, 3.0], vec![1.0, -2.0, 3.0, 1.0]),
        ("origin-0 n=5", vec![0.0, 1.0, 2.5, 3.0, 4.0], vec![2.0, 0.0, 5.0, -1.0, 2.0]),
        ("origin-0 n=3", vec![0.0, 0.5, 2.0], vec![1.0, 2.0, 1.0]),
    ];
    for (name, axis, data) in &faxes {
        for scale_exp in if thorough { vec![0, -700, 600, -1000] } else { vec![0, -700, 600] } {
            if scale_exp != 0 && name.ends_with("n=3") && !thorough {
                continue;
            }
            for group in 0..2 {
                v.push(Item::F(FCfg { name: format!("{name} unit 2^{scale_exp}"), axis: axis.clone(), scale_exp, data: data.clone(), group, timeout_ms: 6_000 }));
            }
        }
    }
    if std::env::var("VERIF_C07_ONLY_F").is_ok() {
        v.retain(|i| matches!(i, Item::F(_)));
        v.truncate(std::env::var("VERIF_C07_ONLY_F").unwrap().parse().unwrap_or(1));
        return v;
    }
    let to = if thorough { 60_000 } else { 20_000 };
    for n in if thorough { vec![3, 4, 5] } else { vec![3, 4] } {
        for (k, call) in [Call::Scalar, Call::Interp, Call::Array(vec![2], QRank::Static), Call::Array(vec![2], QRank::Dyn)].into_iter().enumerate() {
            v.push(Item::O(c05::Cfg { kind: Kind::Spline(Bc::Periodic), nx: n, ny: 0, trailing: if k == 1 { vec![2] } else { vec![] }, call, extrapolate: true, default_axes: false, dynamic: false, timeout_ms: to }));
        }
    }
    v
}

pub fn run(args: &Args) -> Report {
    let mut rep = par_run(items(args), args.threads, |it| match it {
        Item::R(c) => check_r(c),
        Item::O(c) => c06::check_o(c),
        Item::F(c) => check_f(c),
    });
    crate::validate::validate_spline(args.seed, &mut rep);
    for f in sp::FUNCTIONS {
        rep.functions.insert(f.to_string());
    }
    rep.bounds.push(format!("Periodic boundary + extrapolate(true); concrete axis family, n = 3..{}, {} axes per n (uniform and non-uniform, negative / non-zero origins), 1 and 2 lanes; data symbolic with y_(n-1) = y_0; query a real variable left of, right of and inside the range; period count k an unbounded integer variable in the wrap-arithmetic obligation", if args.thorough() { 7 } else { 5 }, if args.thorough() { 20 } else { 6 }));
    rep.bounds.push("layer D (mode O): n = 3..4 (thorough 5), 4 entry points, every non-NaN IEEE query: never rejected, never panics".into());
    rep.bounds.push("layer F (IEEE path witnesses): 3 concrete exactly representable axes with origin 0 (n = 3..5; with a non-zero origin the bit-precise queries over q - x0 and + x0 take 5-12 s each and are left out) in units 2^0, 2^-700, 2^600 (thorough 2^-1000), concrete data; per feasible path of the real code x 8 query strata (inside, within two periods left / right, beyond 2^60 and 2^400 periods, out of range by less than 2^-300 periods) z3 / cvc5 decide with IEEE-754 semantics for + - * / whether a finite query exists and the model is run natively against the non-extrapolating spline at the independently wrapped argument (integer arithmetic on the binary expansions); one witness per path x stratum, not all values".into());
    rep.outside.push("layer F decides path x stratum feasibility for all values but checks the returned value on one solver-chosen witness per path x stratum; % / rem_euclid stay uninterpreted in the feasibility queries (fp.rem does not finish)".into());
    rep.outside.push("rounding of the wrapped argument beyond the layer-F witnesses (float % and the two roundings around it); infinite queries (the code panics on inf; the property speaks of finite queries)".into());
    rep.assumptions.insert("mode R: float operations read as exact real operations; rem_euclid(a,p) modelled by a = k*p + r, k integer, 0 <= r < |p| (std definition), validated concolically against f64::rem_euclid on every run".into());
    rep.assumptions.insert("mode O: for a finite query the wrapped argument is non-NaN (no overflow of q - x0), so C11 applies to the lookup".into());
    rep.assumptions.insert("equal first/last rows: S(x_0) = S(x_n-1) = y_0 is C02's interpolation obligation under shared symbols".into());
    rep
}
