//! C08: every lane of n-dimensional data is interpolated independently. Mode O: inside one execution
//! interpolator A (data Y, per-lane boundaries) and interpolator B (same axis and queries; lane j's data and
//! boundary entry shared, every other lane's data symbols and boundary kinds / values different) must give
//! the same IEEE values for lane j; a third interpolator built from lane j alone must agree with A's lane j.
use crate::api::QRank;
use crate::c05::{self, Cfg};
use crate::common::Args;
use crate::engine::core::{explore, with_ctx, ExploreCfg, Mode, Sym};
use crate::engine::json::Json;
use crate::engine::report::{par_run, Chk, Report, Verdict};
use crate::prob::{native_outcome, Call, Kind, Prob};
use crate::spline::{Bc, End, Row};

#[derive(Clone, Debug)]
struct Item {
    a: Cfg,
    /// same as `a` except for the boundary rows of the lanes other than `lane`
    b_kind: Kind,
    lane: usize,
}
impl Item {
    fn name(&self) -> String {
        format!("{} | other lanes in B: {} | lane {}", self.a.name(), self.b_kind.name(), self.lane)
    }
}
fn lane_positions(cfg: &Cfg, lane: usize) -> Vec<usize> {
    // flat data indices belonging to `lane`
    let lanes = cfg.lanes();
    let rows = cfg.nx * if cfg.kind.is_2d() { cfg.ny } else { 1 };
    (0..rows).map(|r| r * lanes + lane).collect()
}
fn lane_alone(cfg: &Cfg, a: &Prob<Sym>, lane: usize) -> Prob<Sym> {
    let kind = match &cfg.kind {
        Kind::Spline(Bc::Individual(rows)) => Kind::Spline(Bc::Individual(vec![rows[lane]])),
        k => k.clone(),
    };
    let mut shape = vec![cfg.nx];
    if cfg.kind.is_2d() {
        shape.push(cfg.ny);
    }
    Prob { kind, x: a.x.clone(), y: a.y.clone(), shape, data: lane_positions(cfg, lane).iter().map(|k| a.data[*k]).collect(), vl: vec![a.vl[lane]], vr: vec![a.vr[lane]], extrapolate: a.extrapolate, dynamic: false }
}

fn check_item(it: &Item) -> Report {
    with_ctx(|c| c.reset_all());
    with_ctx(|c| c.mode = Mode::O);
    let cfg = &it.a;
    let lanes = cfg.lanes();
    let mut chk = Chk::new(Mode::O, cfg.timeout_ms);
    chk.begin_config(&it.name());
    if lanes == 0 {
        // zero lanes: the calls must still succeed and return empty results
        let a = c05::symbols(cfg, "");
        let mut ecfg = ExploreCfg::new(Mode::O, cfg.nx.max(cfg.ny).max(2) - 1);
        ecfg.timeout_ms = cfg.timeout_ms;
        let (paths, st) = explore(&ecfg, || {
            c05::assume_valid_axes(cfg, &a);
            for q in &a.qs {
                Sym::assume_not_nan(q.0);
            }
            a.prob.run(&cfg.call, &a.qs, Sym::int(0))
        });
        chk.add_explore_stats(paths.len(), &st);
        chk.rep.witnesses_expected += 1;
        for p in &paths {
            match &p.result {
                Ok(Ok(v)) if v.is_empty() => {
                    chk.trivially_holds("zero-lanes");
                    chk.rep.witnesses_found = 1;
                }
                Ok(Ok(_)) => chk.finding("C08:zero-lanes-nonempty-result", &it.name(), Json::obj().with("config", it.name()), None),
                Ok(Err(e)) if e.starts_with("InterpolateError") => {}
                Err(m) if c05::is_cast_fail(m) => {}
                other => chk.finding("C08:zero-lanes-failure", &format!("{}: {:?}", it.name(), other.as_ref().map(|r| r.as_ref().map(|_| ()))), Json::obj().with("config", it.name()), None),
            }
        }
        return chk.rep;
    }
    let a = c05::symbols(cfg, "");
    let cfg_b = Cfg { kind: it.b_kind.clone(), ..cfg.clone() };
    let mut b = c05::symbols(&cfg_b, "b");
    b.prob.x = a.prob.x.clone();
    b.prob.y = a.prob.y.clone();
    for k in lane_positions(cfg, it.lane) {
        b.prob.data[k] = a.prob.data[k];
    }
    b.prob.vl[it.lane] = a.prob.vl[it.lane];
    b.prob.vr[it.lane] = a.prob.vr[it.lane];
    if let Kind::Spline(Bc::Periodic) = cfg.kind {
        // periodic ends are equal by construction in both copies (symbols() shares first/last rows)
    }
    let alone = lane_alone(cfg, &a.prob, it.lane);
    let call_alone = match &cfg.call {
        Call::Interp | Call::InterpInto | Call::Scalar => Call::Interp,
        c => c.clone(),
    };
    let mut ecfg = ExploreCfg::new(Mode::O, cfg.nx.max(cfg.ny).max(2) - 1);
    ecfg.timeout_ms = cfg.timeout_ms;
    ecfg.max_paths = 60_000;
    ecfg.max_seconds = 90;
    let (paths, st) = explore(&ecfg, || {
        c05::assume_valid_axes(cfg, &a);
        for q in &a.qs {
            Sym::assume_not_nan(q.0);
            if cfg.kind.is_2d() {
                Sym::assume_not_nan(q.1);
            }
        }
        let z = Sym::int(0);
        (a.prob.run(&cfg.call, &a.qs, z), b.prob.run(&cfg.call, &a.qs, z), alone.run(&call_alone, &a.qs, z))
    });
    chk.add_explore_stats(paths.len(), &st);
    let all_vars: Vec<String> = with_ctx(|c| c.var_names.clone());
    for v in &all_vars {
        chk.term(Sym::var(v));
    }
    let nq = cfg.call.n_queries();
    let mut n_ok = 0;
    let mut canary_done = false;
    for (pi, p) in paths.iter().enumerate() {
        if chk.rep.findings.iter().any(|f| f.reproduced == Some(true)) {
            break; // this configuration is refuted: no need to decide the remaining paths
        }
        let pcs = chk.pc(&p.pc);
        match &p.result {
            Ok((Ok(oa), Ok(ob), oc)) => {
                n_ok += 1;
                for qi in 0..nq {
                    let (x, y) = (oa[qi * lanes + it.lane], ob[qi * lanes + it.lane]);
                    let mut pairs = vec![("other-lanes-changed", x, y)];
                    if let Ok(oc) = oc {
                        pairs.push(("lane-alone", x, oc[qi]));
                    }
                    for (what, u, w) in pairs {
                        if u.0 == w.0 {
                            chk.trivially_holds(what);
                            continue;
                        }
                        let mut q = pcs.clone();
                        q.push(format!("(not (= {} {}))", chk.term(u), chk.term(w)));
                        if let Verdict::Cex(vals) = chk.must_unsat(what, &format!("path {pi} query {qi}: lane {} {what}", it.lane), &q, &all_vars) {
                            // models to replay: the solver's own, then models in which the shared lane holds IEEE special
                            // values (-0, +inf, -inf): a dependency through a value-triggered shortcut only shows there
                            let mut models = vec![c05::model_f64(&vals)];
                            for special in ["(_ -zero 11 53)", "(_ +oo 11 53)", "(_ -oo 11 53)"] {
                                let mut qq = q.clone();
                                for k in lane_positions(cfg, it.lane) {
                                    qq.push(format!("(= {} {special})", chk.term(a.prob.data[k])));
                                }
                                let (ans, v2) = chk.model(&qq, &all_vars);
                                if matches!(ans, crate::engine::smt::Answer::Sat) {
                                    models.push(c05::model_f64(&v2));
                                }
                            }
                            let mut m = models[0].clone();
                            let mut worst = 0.0f64;
                            let mut shown = String::new();
                            let (mut ra, mut va) = (String::new(), None);
                            for mm in &models {
                                m = mm.clone();
                            let (pa, qs) = c05::native_problem(cfg, &m, "");
                            let (mut pb, _) = c05::native_problem(&cfg_b, &m, "b");
                            pb.x = pa.x.clone();
                            pb.y = pa.y.clone();
                            for k in lane_positions(cfg, it.lane) {
                                pb.data[k] = pa.data[k];
                            }
                            pb.vl[it.lane] = pa.vl[it.lane];
                            pb.vr[it.lane] = pa.vr[it.lane];
                            let (ra_, va_) = native_outcome(&pa, &cfg.call, &qs, 0.0);
                            ra = ra_.clone();
                            va = va_.clone();
                            for poison in [None, Some(f64::NAN), Some(f64::INFINITY), Some(1e300), Some(f64::MAX)] {
                                let mut pbb = pb.clone();
                                if let Some(v) = poison {
                                    let keep = lane_positions(cfg, it.lane);
                                    for (k, d) in pbb.data.iter_mut().enumerate() {
                                        if !keep.contains(&k) {
                                            *d = v;
                                        }
                                    }
                                }
                                let (rb, vb) = if what == "lane-alone" {
                                    let pc_ = Prob { kind: alone.kind.clone(), x: pa.x.clone(), y: pa.y.clone(), shape: alone.shape.clone(), data: lane_positions(cfg, it.lane).iter().map(|k| pa.data[*k]).collect(), vl: vec![pa.vl[it.lane]], vr: vec![pa.vr[it.lane]], extrapolate: pa.extrapolate, dynamic: false };
                                    native_outcome(&pc_, &call_alone, &qs, 0.0)
                                } else {
                                    native_outcome(&pbb, &cfg.call, &qs, 0.0)
                                };
                                shown = format!("{rb} {vb:?}");
                                if let (Some(va), Some(vb)) = (&va, &vb) {
                                    for qi in 0..nq {
                                        let (u, w) = (va[qi * lanes + it.lane], if what == "lane-alone" { vb[qi] } else { vb[qi * lanes + it.lane] });
                                        if u.to_bits() != w.to_bits() && !(u.is_nan() && w.is_nan()) {
                                            let rel = if u.is_finite() && w.is_finite() { (u - w).abs() / u.abs().max(w.abs()).max(f64::MIN_POSITIVE) } else { f64::INFINITY };
                                            worst = worst.max(rel);
                                        }
                                    }
                                } else if ra != rb {
                                    worst = f64::INFINITY;
                                }
                                if worst > 0.0 || what == "lane-alone" {
                                    break;
                                }
                            }
                                if worst > 0.0 {
                                    break;
                                }
                            }
                            let rec = Json::obj().with("config", it.name()).with("model", c05::model_json(&m)).with("A", format!("{ra} {va:?}")).with("other", shown).with("largest_relative_difference", worst);
                            // bit-identity between the copies is required; the lane-alone comparison only up to rounding
                            let violated = if what == "lane-alone" { worst > 1e-9 } else { worst > 0.0 };
                            chk.finding(&format!("C08:{what}:{}", cfg.kind.name()), &format!("{}: lane {} result changes ({what})", it.name(), it.lane), rec, Some(violated));
                        }
                    }
                    if !canary_done && lanes >= 2 {
                        // wrong claim: lane j of A equals the OTHER lane of B (independent symbols) - must be refutable
                        let other = (it.lane + 1) % lanes;
                        let w = ob[qi * lanes + other];
                        if x.0 != w.0 {
                            let mut q = pcs.clone();
                            q.push(format!("(not (= {} {}))", chk.term(x), chk.term(w)));
                            chk.canary("lane j of A claimed equal to another lane of B", &q);
                            canary_done = true;
                        }
                    }
                }
            }
            Ok((ra, rb, _)) => {
                let k = |r: &Result<Vec<Sym>, String>| r.as_ref().map(|_| "Ok".to_string()).unwrap_or_else(|e| e.clone());
                // "both builds Ok" premise: data-dependent build failures (periodic ends, NaN) may differ between copies
                // the Periodic end-row check is all-or-nothing by design: there a data-dependent build failure may differ
                // between the copies. For every other strategy a build outcome that depends on another lane's values is
                // lane cross-talk.
                let periodic = matches!(cfg.kind, Kind::Spline(Bc::Periodic));
                let builder = k(ra).starts_with("BuilderError") || k(rb).starts_with("BuilderError");
                if k(ra) != k(rb) && !(builder && periodic) {
                    // native replay: copy B with the other lanes at huge finite values, NaN, inf in turn
                    let (ans, vals) = chk.model(&pcs, &all_vars);
                    let m = c05::model_f64(&vals);
                    let mut reproduced = None;
                    if matches!(ans, crate::engine::smt::Answer::Sat) {
                        let (pa, qs) = c05::native_problem(cfg, &m, "");
                        let keep = lane_positions(cfg, it.lane);
                        let base_outcome = {
                            let mut p0 = pa.clone();
                            for (k, d) in p0.data.iter_mut().enumerate() {
                                *d = 0.5 + (k % 7) as f64; // ordinary finite values everywhere
                            }
                            native_outcome(&p0, &cfg.call, &qs, 0.0).0
                        };
                        reproduced = Some(false);
                        for v in [f64::MAX, -f64::MAX, f64::NAN, f64::INFINITY, 1e300] {
                            let mut p1 = pa.clone();
                            for (k, d) in p1.data.iter_mut().enumerate() {
                                *d = if keep.contains(&k) { 0.5 + (k % 7) as f64 } else { v };
                            }
                            if native_outcome(&p1, &cfg.call, &qs, 0.0).0 != base_outcome {
                                reproduced = Some(true);
                                break;
                            }
                        }
                    }
                    chk.finding(&format!("C08:outcome-differs:{}", cfg.kind.name()), &format!("{}: A {} vs B {} although lane {} is shared", it.name(), k(ra), k(rb), it.lane), Json::obj().with("config", it.name()).with("model", c05::model_json(&m)), reproduced);
                }
            }
            Err(m) => {
                if c05::is_cast_fail(m) {
                    *chk.rep.cut_by_assumption.entry("C11: index guess of a non-NaN lookup argument is in range".into()).or_default() += 1;
                } else {
                    chk.finding(&format!("C08:panic:{}", cfg.kind.name()), &format!("{}: {m}", it.name()), Json::obj().with("config", it.name()), None);
                }
            }
        }
    }
    chk.rep.witnesses_expected += 1;
    if n_ok > 0 {
        chk.rep.witnesses_found += 1;
    } else {
        chk.rep.errors.push(format!("{}: no path where both interpolators answered", it.name()));
    }
    chk.rep
}

fn items(args: &Args) -> Vec<Item> {
    let thorough = args.thorough();
    let timeout_ms = if thorough { 60_000 } else { 20_000 };
    let mut shapes: Vec<Vec<usize>> = vec![vec![2], vec![3], vec![2, 2]];
    if thorough {
        shapes.extend([vec![1], vec![1, 3], vec![2, 0], vec![2, 1, 2], vec![1, 2, 1, 2], vec![2, 1, 1, 1, 2]]);
    } else {
        shapes.extend([vec![1, 3], vec![2, 0], vec![2, 1, 2], vec![1, 2, 1]]);
    }
    let pairs: Vec<(End, End)> = End::ALL.iter().flat_map(|l| End::ALL.iter().map(move |r| (*l, *r))).collect();
    let mut v = vec![];
    for (si, trailing) in shapes.iter().enumerate() {
        let lanes: usize = trailing.iter().product();
        let calls = [Call::Interp, Call::Array(vec![2], QRank::Static), Call::Array(vec![1, 1], QRank::Static), Call::ArrayInto(vec![2], QRank::Dyn)];
        let dynamic = thorough && si % 3 == 2;
        let mk = |kind: Kind, nx: usize, ny: usize, call: Call| Cfg { kind, nx, ny, trailing: trailing.clone(), call, extrapolate: si % 2 == 0, default_axes: false, dynamic, timeout_ms };
        let lane_list: Vec<usize> = if lanes == 0 { vec![0] } else if thorough { (0..lanes).collect() } else { vec![0, lanes - 1] };
        for (li, lane) in lane_list.iter().enumerate() {
            let call = calls[(si + li) % calls.len()].clone();
            // Linear
            v.push(Item { a: mk(Kind::Linear, 3, 0, call.clone()), b_kind: Kind::Linear, lane: *lane });
            // whole-data-set spline boundaries
            for (bi, bc) in [Bc::NotAKnot, Bc::Natural, Bc::Clamped, Bc::Periodic].into_iter().enumerate() {
                if !thorough && (bi + si + li) % 2 == 1 {
                    continue;
                }
                v.push(Item { a: mk(Kind::Spline(bc.clone()), 3 + (bi + li) % 2, 0, call.clone()), b_kind: Kind::Spline(bc), lane: *lane });
            }
            // Individual: a different condition per lane; B rotates the conditions of the other lanes
            if lanes >= 1 {
                // for three trailing axes: most lanes share one condition, a single lane differs
                let mostly_equal = trailing.len() == 3 && lanes >= 2 && (trailing == &vec![1, 2, 1] || trailing == &vec![2, 2, 2]);
                let rows_a: Vec<Row> = (0..lanes).map(|j| { let (l, r) = pairs[(si * 7 + j * 6 + 1) % 25]; if mostly_equal { if j == lanes / 4 + 1 { Row::Plain(End::Cla) } else { Row::Plain(End::Nat) } } else if j % 4 == 3 { Row::Plain(End::Nat) } else { Row::Mixed(l, r) } }).collect();
                let mut rows_b: Vec<Row> = (0..lanes).map(|j| { let (l, r) = pairs[(si * 7 + j * 6 + 9) % 25]; Row::Mixed(r, l) }).collect();
                rows_b[*lane] = rows_a[*lane];
                v.push(Item { a: mk(Kind::Spline(Bc::Individual(rows_a)), 4, 0, call.clone()), b_kind: Kind::Spline(Bc::Individual(rows_b)), lane: *lane });
            }
            // Bilinear
            v.push(Item { a: mk(Kind::Bilinear, 2, 3, call.clone()), b_kind: Kind::Bilinear, lane: *lane });
        }
    }
    v
}

pub fn run(args: &Args) -> Report {
    let mut rep = par_run(items(args), args.threads, check_item);
    crate::validate::validate_spline(args.seed, &mut rep);
    for f in crate::c0203::FUNCTIONS.iter().chain(crate::c01::FUNCTIONS).chain(crate::c04::FUNCTIONS) {
        rep.functions.insert(f.to_string());
    }
    rep.bounds.push(format!("trailing shapes (2), (3), (2,2), (1,3), (2,0), (2,1,2), (1,2,1){}; Linear n=3, CubicSpline n=3..4 with NotAKnot/Natural/Clamped/Periodic and Individual arrays holding a different Mixed pair per lane (B uses other kinds and independent values for the other lanes), Bilinear 2x3; entry points interp, interp_array (Ix1 x2, Ix2 1x1), interp_array_into (IxDyn); axis, data, boundary values and non-NaN queries all IEEE doubles", if args.thorough() { ", (1), (2,1,2), (1,2,1,2), (2,1,1,1,2) (data up to Ix6) and IxDyn data" } else { "" }));
    rep.outside.push("the lane-alone comparison is required only up to rounding: a native difference below 1e-9 relative is reported as information, not as a violation".into());
    rep.assumptions.insert("mode O: comparisons bit-precise IEEE, arithmetic uninterpreted (congruence)".into());
    rep.assumptions.insert("C11 (engine K) for index-guess casts".into());
    rep
}
