//! C04: Bilinear returns the exact bilinear blend of the cell. Mode R, concrete rational axes (or the default
//! index axes), symbolic data and query; obligations per cell with the cell as premise.
use std::collections::BTreeMap;

use crate::api::{arr1, arrd, build_2d, QRank};
use crate::common::{axis_family, Args, Axis};
use crate::engine::core::{explore, run_concrete, with_ctx, ExploreCfg, Mode, Rat, Sym};
use crate::engine::json::Json;
use crate::engine::report::{par_run, Chk, Report, Verdict};
use crate::engine::smt::{sx_to_rat, Answer};

#[derive(Clone, Copy, Debug, PartialEq, Eq)]
pub enum Entry {
    Scalar,
    Interp,
    Array1,
    ArrayDyn,
}
#[derive(Clone, Debug)]
pub struct Cfg {
    pub x: Option<Axis>,
    pub y: Option<Axis>,
    pub nx: usize,
    pub ny: usize,
    pub trailing: Vec<usize>,
    pub entry: Entry,
    pub extrapolate: bool,
    pub transposed_twin: bool,
    pub timeout_ms: u64,
}
impl Cfg {
    pub fn name(&self) -> String {
        let ax = |a: &Option<Axis>| a.as_ref().map(|a| format!("{}{}", a.name, a.text())).unwrap_or("default-index".into());
        format!("Bilinear {}x{} trailing={:?} x={} y={} entry={:?} extrapolate={}", self.nx, self.ny, self.trailing, ax(&self.x), ax(&self.y), self.entry, self.extrapolate)
    }
    pub fn lanes(&self) -> usize {
        self.trailing.iter().product()
    }
    pub fn xr(&self) -> Vec<Rat> {
        self.x.as_ref().map(|a| a.x.clone()).unwrap_or((0..self.nx).map(|i| Rat::int(i as i128)).collect())
    }
    pub fn yr(&self) -> Vec<Rat> {
        self.y.as_ref().map(|a| a.x.clone()).unwrap_or((0..self.ny).map(|i| Rat::int(i as i128)).collect())
    }
}
pub struct BilSyms {
    pub x: Vec<Sym>,
    pub y: Vec<Sym>,
    /// z[i][j][lane]
    pub z: Vec<Vec<Vec<Sym>>>,
    pub qx: Sym,
    pub qy: Sym,
}
pub fn bil_symbols(cfg: &Cfg) -> BilSyms {
    let c = |r: &Rat| Sym::rat(r.0, r.1);
    BilSyms {
        x: cfg.xr().iter().map(c).collect(),
        y: cfg.yr().iter().map(c).collect(),
        z: (0..cfg.nx).map(|i| (0..cfg.ny).map(|j| (0..cfg.lanes()).map(|l| Sym::var(&format!("z{i}_{j}_{l}"))).collect()).collect()).collect(),
        qx: Sym::var("qx"),
        qy: Sym::var("qy"),
    }
}
pub fn eval_bilinear(cfg: &Cfg, x: &[Sym], y: &[Sym], z: &[Vec<Vec<Sym>>], qx: Sym, qy: Sym) -> Result<Vec<Sym>, String> {
    let mut shape = vec![cfg.nx, cfg.ny];
    shape.extend(&cfg.trailing);
    let flat: Vec<Sym> = z.iter().flat_map(|r| r.iter().flat_map(|c| c.iter().copied())).collect();
    let it = build_2d(cfg.x.as_ref().map(|_| arr1(x)), cfg.y.as_ref().map(|_| arr1(y)), arrd(&shape, &flat), cfg.extrapolate, false).map_err(|e| format!("BuilderError::{e:?}"))?;
    let r = match cfg.entry {
        Entry::Scalar => it.interp_scalar(qx, qy).map(|v| vec![v]),
        Entry::Interp => it.interp(qx, qy).map(|a| a.iter().copied().collect()),
        Entry::Array1 => it.interp_array(arr1(&[qx]).into_dyn().view(), arr1(&[qy]).into_dyn().view(), QRank::Static).map(|a| a.iter().copied().collect()),
        Entry::ArrayDyn => it.interp_array(arr1(&[qx]).into_dyn().view(), arr1(&[qy]).into_dyn().view(), QRank::Dyn).map(|a| a.iter().copied().collect()),
    };
    r.map_err(|e| format!("InterpolateError::{e:?}"))
}
/// the interpolator over the transposed data with swapped axes, queried at swapped coordinates
pub fn eval_transposed(cfg: &Cfg, s: &BilSyms) -> Result<Vec<Sym>, String> {
    let t = Cfg { x: cfg.y.clone(), y: cfg.x.clone(), nx: cfg.ny, ny: cfg.nx, ..cfg.clone() };
    let zt: Vec<Vec<Vec<Sym>>> = (0..cfg.ny).map(|j| (0..cfg.nx).map(|i| s.z[i][j].clone()).collect()).collect();
    eval_bilinear(&t, &s.y, &s.x, &zt, s.qy, s.qx)
}

pub fn replay_bilinear(cfg: &Cfg, model: &BTreeMap<String, Rat>) -> (Option<bool>, Json) {
    let get = |name: &str| model.get(name).copied().unwrap_or(Rat(0, 1));
    let (xr, yr) = (cfg.xr(), cfg.yr());
    let (qx, qy) = (get("qx"), get("qy"));
    let mut rec = Json::obj().with("config", cfg.name());
    let mut mj = Json::obj();
    for (k, v) in model {
        mj.set(k, v.to_string());
    }
    rec.set("model", mj);
    let c = |r: Rat| Sym::rat(r.0, r.1);
    let s = bil_symbols(cfg);
    let z: Vec<Vec<Vec<Sym>>> = (0..cfg.nx).map(|i| (0..cfg.ny).map(|j| (0..cfg.lanes()).map(|l| c(get(&format!("z{i}_{j}_{l}")))).collect()).collect()).collect();
    let got = run_concrete(Mode::R, || eval_bilinear(cfg, &s.x, &s.y, &z, c(qx), c(qy)));
    let cell = |q: Rat, ax: &[Rat]| {
        let mut k = 0;
        while k + 2 < ax.len() && q.cmp(ax[k + 1]) != Some(std::cmp::Ordering::Less) {
            k += 1;
        }
        k
    };
    let (i, j) = (cell(qx, &xr), cell(qy, &yr));
    let inside = |q: Rat, ax: &[Rat]| q.cmp(ax[0]) != Some(std::cmp::Ordering::Less) && q.cmp(ax[ax.len() - 1]) != Some(std::cmp::Ordering::Greater);
    let in_range = inside(qx, &xr) && inside(qy, &yr);
    let (x1, x2, y1, y2) = (s.x[i], s.x[i + 1], s.y[j], s.y[j + 1]);
    let expect: Vec<Sym> = (0..cfg.lanes())
        .map(|l| (z[i][j][l] * (x2 - c(qx)) * (y2 - c(qy)) + z[i + 1][j][l] * (c(qx) - x1) * (y2 - c(qy)) + z[i][j + 1][l] * (x2 - c(qx)) * (c(qy) - y1) + z[i + 1][j + 1][l] * (c(qx) - x1) * (c(qy) - y1)) / ((x2 - x1) * (y2 - y1)))
        .collect();
    rec.set("cell", vec![i as i64, j as i64]);
    rec.set("expected_exact", expect.iter().map(|e| e.konst().map(|r| r.to_string()).unwrap_or("?".into())).collect::<Vec<_>>());
    let reproduced = match &got {
        Ok(Ok(v)) => {
            rec.set("observed_exact", v.iter().map(|e| e.konst().map(|r| r.to_string()).unwrap_or("?".into())).collect::<Vec<_>>());
            if with_ctx(|c| c.overflowed) {
                None
            } else if !in_range && !cfg.extrapolate {
                Some(true)
            } else {
                Some(v.iter().zip(&expect).any(|(a, b)| a.konst() != b.konst()))
            }
        }
        Ok(Err(e)) => {
            rec.set("observed", e.as_str());
            Some(in_range || cfg.extrapolate)
        }
        Err(e) => {
            rec.set("observed", e.as_str());
            Some(true)
        }
    };
    (reproduced, rec)
}

fn model_of(vals: &[(String, String)]) -> BTreeMap<String, Rat> {
    vals.iter().filter_map(|(k, v)| sx_to_rat(v).map(|r| (k.clone(), r))).collect()
}
/// premise "query in the closed cell (i,j)"; at the borders open to the outside when `open_ends`
pub fn cell_premise(chk: &mut Chk, s: &BilSyms, i: usize, j: usize, open_ends: bool) -> String {
    let (qx, qy) = (chk.term(s.qx), chk.term(s.qy));
    let (nx, ny) = (s.x.len(), s.y.len());
    let mut parts = vec![];
    if !(open_ends && i == 0) {
        parts.push(format!("(<= {} {qx})", chk.term(s.x[i])));
    }
    if !(open_ends && i == nx - 2) {
        parts.push(format!("(<= {qx} {})", chk.term(s.x[i + 1])));
    }
    if !(open_ends && j == 0) {
        parts.push(format!("(<= {} {qy})", chk.term(s.y[j])));
    }
    if !(open_ends && j == ny - 2) {
        parts.push(format!("(<= {qy} {})", chk.term(s.y[j + 1])));
    }
    format!("(and true {})", parts.join(" "))
}
/// cross-multiplied bilinear equation for cell (i,j), lane l; `swap` exchanges the mixed neighbours (wrong oracle)
pub fn blend_eq(chk: &mut Chk, s: &BilSyms, out: Sym, i: usize, j: usize, l: usize, swap: bool) -> String {
    let (o, qx, qy) = (chk.term(out), chk.term(s.qx), chk.term(s.qy));
    let (x1, x2, y1, y2) = (chk.term(s.x[i]), chk.term(s.x[i + 1]), chk.term(s.y[j]), chk.term(s.y[j + 1]));
    let z11 = chk.term(s.z[i][j][l]);
    let z22 = chk.term(s.z[i + 1][j + 1][l]);
    let (mut z21, mut z12) = (chk.term(s.z[i + 1][j][l]), chk.term(s.z[i][j + 1][l]));
    if swap {
        std::mem::swap(&mut z21, &mut z12);
    }
    format!("(= (* {o} (* (- {x2} {x1}) (- {y2} {y1}))) (+ (* {z11} (* (- {x2} {qx}) (- {y2} {qy}))) (* {z21} (* (- {qx} {x1}) (- {y2} {qy}))) (* {z12} (* (- {x2} {qx}) (- {qy} {y1}))) (* {z22} (* (- {qx} {x1}) (- {qy} {y1})))))")
}

pub fn check_config(cfg: &Cfg) -> Report {
    check_config_for("C04", cfg)
}
/// `prop` = "C04": in-range queries, closed cells, all corollaries; "C06": extrapolating interpolator,
/// unconstrained query, border cells open to the outside, blend-value obligations only
pub fn check_config_for(prop: &str, cfg: &Cfg) -> Report {
    let c04 = prop == "C04";
    with_ctx(|c| c.reset_all());
    let mut chk = Chk::new(Mode::R, cfg.timeout_ms);
    chk.begin_config(&cfg.name());
    let (nx, ny, lanes) = (cfg.nx, cfg.ny, cfg.lanes());
    let s = bil_symbols(cfg);
    let mut ecfg = ExploreCfg::new(Mode::R, nx.max(ny) - 1);
    ecfg.timeout_ms = cfg.timeout_ms;
    let (paths, st) = explore(&ecfg, || {
        if c04 {
            Sym::assume_le(s.x[0], s.qx);
            Sym::assume_le(s.qx, s.x[nx - 1]);
            Sym::assume_le(s.y[0], s.qy);
            Sym::assume_le(s.qy, s.y[ny - 1]);
        }
        let a = eval_bilinear(cfg, &s.x, &s.y, &s.z, s.qx, s.qy);
        let t = if cfg.transposed_twin { Some(eval_transposed(cfg, &s)) } else { None };
        (a, t)
    });
    chk.add_explore_stats(paths.len(), &st);
    let all_vars: Vec<String> = with_ctx(|c| c.var_names.clone());
    for v in &all_vars {
        chk.term(Sym::var(v));
    }
    let mut covered = vec![vec![false; ny - 1]; nx - 1];
    let mut canary_done = false;
    for (pi, p) in paths.iter().enumerate() {
        let pcs = chk.pc(&p.pc);
        match &p.result {
            Ok((Ok(out), twin)) => {
                for i in 0..nx - 1 {
                    for j in 0..ny - 1 {
                        let prem = cell_premise(&mut chk, &s, i, j, !c04);
                        let mut pre = pcs.clone();
                        pre.push(prem);
                        if !matches!(chk.feasible(&pre), Answer::Sat) {
                            continue; // this path cannot end in this cell
                        }
                        if !covered[i][j] {
                            let strict = format!("(and (< {} {qx}) (< {qx} {}) (< {} {qy}) (< {qy} {}))", chk.term(s.x[i]), chk.term(s.x[i + 1]), chk.term(s.y[j]), chk.term(s.y[j + 1]), qx = chk.term(s.qx), qy = chk.term(s.qy));
                            let mut w = pcs.clone();
                            w.push(strict);
                            if matches!(chk.feasible(&w), Answer::Sat) {
                                covered[i][j] = true;
                            }
                        }
                        for l in 0..lanes {
                            let eq = blend_eq(&mut chk, &s, out[l], i, j, l, false);
                            let mut a = pre.clone();
                            a.push(format!("(not {eq})"));
                            if let Verdict::Cex(vals) = chk.must_unsat("blend-value", &format!("path {pi} cell ({i},{j}) lane {l}: bilinear blend of the four corners"), &a, &all_vars) {
                                let (rep, rec) = replay_bilinear(cfg, &model_of(&vals));
                                chk.finding(&format!("{prop}:wrong-value:{:?}", cfg.entry), &format!("{}: result is not the bilinear blend of cell ({i},{j}), lane {l}", cfg.name()), rec, rep);
                            }
                            if !canary_done && covered[i][j] {
                                let wrong = blend_eq(&mut chk, &s, out[l], i, j, l, true);
                                let mut a = pre.clone();
                                a.push(format!("(not {wrong})"));
                                chk.canary(&format!("path {pi} cell ({i},{j}): oracle with the mixed neighbours z12/z21 swapped"), &a);
                                canary_done = true;
                            }
                            if !c04 {
                                continue;
                            }
                            // nodes reproduced (all four corners of the cell)
                            for (di, dj) in [(0, 0), (1, 0), (0, 1), (1, 1)] {
                                let mut a = pcs.clone();
                                a.push(format!("(= {} {})", chk.term(s.qx), chk.term(s.x[i + di])));
                                a.push(format!("(= {} {})", chk.term(s.qy), chk.term(s.y[j + dj])));
                                a.push(format!("(not (= {} {}))", chk.term(out[l]), chk.term(s.z[i + di][j + dj][l])));
                                if let Verdict::Cex(vals) = chk.must_unsat("node-value", &format!("path {pi} node ({},{}) lane {l}: grid node reproduced", i + di, j + dj), &a, &all_vars) {
                                    let (rep, rec) = replay_bilinear(cfg, &model_of(&vals));
                                    chk.finding(&format!("{prop}:node-not-reproduced:{:?}", cfg.entry), &format!("{}: grid node ({},{}) not reproduced, lane {l}", cfg.name(), i + di, j + dj), rec, rep);
                                }
                            }
                            // on the grid line x = x_i the value is the 1-D linear interpolation along y (and likewise for y = y_j)
                            let (o, qx, qy) = (chk.term(out[l]), chk.term(s.qx), chk.term(s.qy));
                            let (x1, x2, y1, y2) = (chk.term(s.x[i]), chk.term(s.x[i + 1]), chk.term(s.y[j]), chk.term(s.y[j + 1]));
                            let (z11, z21, z12) = (chk.term(s.z[i][j][l]), chk.term(s.z[i + 1][j][l]), chk.term(s.z[i][j + 1][l]));
                            let mut a = pre.clone();
                            a.push(format!("(= {qx} {x1})"));
                            a.push(format!("(not (= (* (- {o} {z11}) (- {y2} {y1})) (* (- {z12} {z11}) (- {qy} {y1}))))"));
                            if let Verdict::Cex(vals) = chk.must_unsat("grid-line", &format!("path {pi} cell ({i},{j}) lane {l}: along the line x = x[{i}] the value is the 1-D interpolation in y"), &a, &all_vars) {
                                let (rep, rec) = replay_bilinear(cfg, &model_of(&vals));
                                chk.finding(&format!("{prop}:grid-line:{:?}", cfg.entry), &format!("{}: along a grid line in y the value is not the 1-D linear interpolation (cell ({i},{j}), lane {l})", cfg.name()), rec, rep);
                            }
                            let mut a = pre.clone();
                            a.push(format!("(= {qy} {y1})"));
                            a.push(format!("(not (= (* (- {o} {z11}) (- {x2} {x1})) (* (- {z21} {z11}) (- {qx} {x1}))))"));
                            if let Verdict::Cex(vals) = chk.must_unsat("grid-line", &format!("path {pi} cell ({i},{j}) lane {l}: along the line y = y[{j}] the value is the 1-D interpolation in x"), &a, &all_vars) {
                                let (rep, rec) = replay_bilinear(cfg, &model_of(&vals));
                                chk.finding(&format!("{prop}:grid-line:{:?}", cfg.entry), &format!("{}: along a grid line in x the value is not the 1-D linear interpolation (cell ({i},{j}), lane {l})", cfg.name()), rec, rep);
                            }
                        }
                    }
                }
                if let Some(t) = twin {
                    match t {
                        Ok(tv) => {
                            for l in 0..lanes {
                                if tv[l].0 == out[l].0 {
                                    chk.trivially_holds("transposition");
                                    continue;
                                }
                                let mut a = pcs.clone();
                                a.push(format!("(not (= {} {}))", chk.term(out[l]), chk.term(tv[l])));
                                if let Verdict::Cex(vals) = chk.must_unsat("transposition", &format!("path {pi} lane {l}: transposed data with swapped axes and query gives the same value"), &a, &all_vars) {
                                    let (rep, rec) = replay_bilinear(cfg, &model_of(&vals));
                                    chk.finding(&format!("{prop}:transposition:{:?}", cfg.entry), &format!("{}: transposing data and swapping axes/query changes the value (lane {l})", cfg.name()), rec, rep.map(|_| true));
                                }
                            }
                        }
                        Err(e) => chk.finding(&format!("{prop}:transposed-twin-not-answered:{:?}", cfg.entry), &format!("{}: transposed twin not answered: {e}", cfg.name()), Json::obj().with("config", cfg.name()), None),
                    }
                }
            }
            Ok((Err(e), _)) | Err(e) => {
                let (ans, vals) = chk.model(&pcs, &all_vars);
                if matches!(ans, Answer::Sat) {
                    let (rep, rec) = replay_bilinear(cfg, &model_of(&vals));
                    let kind = if p.result.is_err() { "panic" } else { "error" };
                    chk.finding(&format!("{prop}:in-range-query-{kind}:{:?}", cfg.entry), &format!("{}: in-range query not answered: {e}", cfg.name()), rec, rep);
                }
            }
        }
    }
    for i in 0..nx - 1 {
        for j in 0..ny - 1 {
            chk.rep.witnesses_expected += 1;
            if covered[i][j] {
                chk.rep.witnesses_found += 1;
            } else {
                chk.rep.errors.push(format!("{}: no feasible Ok path strictly inside cell ({i},{j}) (vacuous)", cfg.name()));
            }
        }
    }
    chk.rep
}

pub fn configs(args: &Args) -> Vec<Cfg> {
    let thorough = args.thorough();
    let timeout_ms = if thorough { 120_000 } else { 20_000 };
    let grids: Vec<(usize, usize)> = if thorough { vec![(2, 2), (2, 3), (3, 2), (3, 3), (4, 3), (3, 5), (4, 4), (5, 3)] } else { vec![(2, 2), (2, 3), (3, 2), (3, 3)] };
    let pairs = if thorough { 30 } else { 8 };
    let mut v = vec![];
    // long axes (search windows, block-wise scans only show beyond 8 points): a few strongly non-uniform ones
    let long: Vec<(usize, usize)> = if thorough { vec![(10, 2), (2, 11), (13, 3), (3, 18)] } else { vec![(10, 2), (2, 11)] };
    for (nx, ny) in grids.into_iter().chain(long) {
        let pairs = if nx.max(ny) >= 9 { pairs.min(6) } else { pairs };
        let fx = axis_family(nx, pairs, args.seed);
        let fy = axis_family(ny, pairs + 3, args.seed ^ 0xabc);
        for k in 0..pairs {
            // independent, differently spaced families for x and y
            let (ax, ay) = (fx[k % fx.len()].clone(), fy[(k + 3) % fy.len()].clone());
            let trailing = if k % 2 == 0 { vec![] } else { vec![2] };
            let entry = if trailing.is_empty() { [Entry::Scalar, Entry::Interp, Entry::Array1][k % 3] } else { [Entry::Interp, Entry::Array1, Entry::ArrayDyn][k % 3] };
            v.push(Cfg { x: Some(ax), y: Some(ay), nx, ny, trailing, entry, extrapolate: false, transposed_twin: k % 2 == 0 || thorough, timeout_ms });
        }
        // default index axes, and one explicit / one default
        if nx.max(ny) >= 9 {
            continue;
        }
        let fx0 = fx[0].clone();
        let fy2 = fy[2 % fy.len()].clone();
        v.push(Cfg { x: None, y: None, nx, ny, trailing: vec![], entry: Entry::Scalar, extrapolate: false, transposed_twin: true, timeout_ms });
        v.push(Cfg { x: None, y: None, nx, ny, trailing: vec![2], entry: Entry::Array1, extrapolate: false, transposed_twin: false, timeout_ms });
        v.push(Cfg { x: Some(fx0), y: None, nx, ny, trailing: vec![], entry: Entry::Interp, extrapolate: false, transposed_twin: false, timeout_ms });
        v.push(Cfg { x: None, y: Some(fy2), nx, ny, trailing: vec![2], entry: Entry::Interp, extrapolate: false, transposed_twin: true, timeout_ms });
    }
    v
}

pub const FUNCTIONS: &[&str] = &[
    "interp2d::Interp2DBuilder::new",
    "interp2d::Interp2DBuilder::x",
    "interp2d::Interp2DBuilder::y",
    "interp2d::Interp2DBuilder::strategy",
    "interp2d::Interp2DBuilder::build",
    "interp2d::strategies::bilinear::Bilinear::interp_into",
    "interp1d::strategies::linear::Linear::calc_frac",
    "interp2d::Interp2D::interp_scalar",
    "interp2d::Interp2D::interp",
    "interp2d::Interp2D::interp_array",
    "interp2d::Interp2D::interp_array_into",
    "interp2d::Interp2D::interp_array_into_1d",
    "interp2d::Interp2D::is_in_x_range",
    "interp2d::Interp2D::is_in_y_range",
    "interp2d::Interp2D::get_index_left_of",
    "interp2d::Interp2D::index_point",
    "vector_extensions::VectorExtensions::get_lower_index",
    "vector_extensions::VectorExtensions::monotonic_prop",
];

pub fn run(args: &Args) -> Report {
    let mut rep = par_run(configs(args), args.threads, check_config);
    crate::validate::validate_bilinear(args.seed, &mut rep);
    for f in FUNCTIONS {
        rep.functions.insert(f.to_string());
    }
    rep.bounds.push(format!("grids {}; axes: independent members of the concrete rational family for x and y ({} pairs per grid), default index axes, and mixed explicit/default; trailing shapes (), (2); entry points interp_scalar / interp / interp_array (Ix1{})", if args.thorough() { "2x2, 2x3, 3x2, 3x3, 4x3, 3x5, 4x4, 5x3" } else { "2x2, 2x3, 3x2, 3x3" }, if args.thorough() { 30 } else { 8 }, ", IxDyn query"));
    rep.bounds.push("every data value and both query coordinates are solver variables (reals); query constrained to the closed grid range".into());
    rep.outside.push("symbolic axes (one symbolic axis already stalls z3 on the nested divisions, DESIGN section 4)".into());
    rep.outside.push("floating-point rounding (layer N)".into());
    rep.outside.push("cell selection for IEEE inputs: C11 per axis; dependence on the four corners only: C20".into());
    rep.assumptions.insert("mode R: float operations read as exact real operations".into());
    rep
}
