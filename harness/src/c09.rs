//! C09: all query entry points agree and results have shape query ++ trailing data dims. Mode O: inside one
//! execution (branch decisions on identical conditions are memoised, so all calls see the same outcomes) the
//! real interpolator is queried through every entry point; every data value is a symbol, so the element /
//! query correspondence is decided for all values at once (term identity, else a z3 query). Query values are
//! distinct exactly representable constants for the larger query shapes and symbols for batches of <= 2.
use crate::api::QRank;
use crate::common::Args;
use crate::engine::core::{explore, with_ctx, ExploreCfg, Mode, Sym};
use crate::engine::json::Json;
use crate::engine::report::{par_run, Chk, Report, Verdict};
use crate::entry::{self, Ep, Out, Scen, Vals};
use crate::layout::Layout;
use crate::prob::Kind;
use crate::spline::Bc;

#[derive(Clone, Debug)]
struct Item {
    s: Scen,
    symbolic_queries: bool,
    timeout_ms: u64,
}

pub fn sym_vals(s: &Scen, symbolic_queries: bool, symbolic_axes: bool) -> Vals<Sym> {
    let (nx, ny) = (s.nx(), s.ny());
    // exactly representable, non-uniform axes whose span is exactly len-1: the slope (len-1)/span of the index
    // guess is then exactly 1 and the guess of an exactly representable query folds to a constant (no branching
    // on constant queries); the interior knots are shifted by -1/4, 0, +1/4 so that the guess still misses
    let ax = |n: usize, p: &str, off: i128| -> Vec<Sym> {
        (0..n)
            .map(|i| {
                if symbolic_axes {
                    Sym::var(&format!("{p}{i}"))
                } else if s.default_axes {
                    Sym::int(i as i128)
                } else {
                    let shift = if i == 0 || i + 1 == n { 0 } else { ((i * 7) % 3) as i128 - 1 };
                    Sym::rat(4 * (off + i as i128) + shift, 4)
                }
            })
            .collect()
    };
    let x = ax(nx, "x", -3);
    let y = ax(ny.max(1), "y", 1);
    let total: usize = s.shape.iter().product();
    let lanes = s.lanes();
    let mut data: Vec<Sym> = (0..total).map(|i| Sym::var(&format!("d{i}"))).collect();
    if let Kind::Spline(Bc::Periodic) = s.kind {
        for j in 0..lanes {
            data[(nx - 1) * lanes + j] = data[j];
        }
    }
    let nq = s.nq();
    let span = |a: &Vec<Sym>, k: usize| -> Sym {
        // distinct dyadic points strictly inside the range and spread over it (so that different query elements
        // fall into different brackets), none at a knot
        let (lo, hi) = (a[0].konst().unwrap(), a[a.len() - 1].konst().unwrap());
        let w = hi.sub(lo).unwrap();
        let den = (2 * nq.max(1)).next_power_of_two().max(8) as i128 * 4;
        let r = lo.add(w.mul(crate::engine::core::Rat::new(4 * (2 * (k % nq.max(1)) as i128 + 1) + 1, den)).unwrap()).unwrap();
        Sym::rat(r.0, r.1)
    };
    let (qx, qy) = if symbolic_queries || symbolic_axes { ((0..nq).map(|k| Sym::var(&format!("qx{k}"))).collect(), (0..nq).map(|k| Sym::var(&format!("qy{k}"))).collect()) } else { ((0..nq).map(|k| span(&x, k)).collect(), (0..nq).map(|k| span(&y, nq - 1 - k + 3)).collect()) };
    Vals { x, y, data, vl: (0..lanes).map(|j| Sym::var(&format!("vl{j}"))).collect(), vr: (0..lanes).map(|j| Sym::var(&format!("vr{j}"))).collect(), qx, qy, zero: Sym::int(0) }
}

/// native f64 values corresponding to symbolic scenario values: constants keep their (exactly representable)
/// value, variables take the model's value, or a generic finite value when the model does not mention them
pub fn native_from_sym(v: &Vals<Sym>, m: &std::collections::BTreeMap<String, f64>, seed: u64) -> Vals<f64> {
    let mut rng = crate::common::Rng::new(seed ^ 0x5eed);
    let mut conv = |t: &Sym| -> f64 {
        if let Some(r) = t.konst() {
            return r.to_f64();
        }
        let name = with_ctx(|c| match c.node(t.0) {
            crate::engine::core::Node::Var(i) => Some(c.var_names[*i as usize].clone()),
            _ => None,
        });
        match name.and_then(|n| m.get(&n).copied()) {
            Some(x) => x,
            None => rng.f64_in(-5.0, 5.0),
        }
    };
    Vals { x: v.x.iter().map(&mut conv).collect(), y: v.y.iter().map(&mut conv).collect(), data: v.data.iter().map(&mut conv).collect(), vl: v.vl.iter().map(&mut conv).collect(), vr: v.vr.iter().map(&mut conv).collect(), qx: v.qx.iter().map(&mut conv).collect(), qy: v.qy.iter().map(&mut conv).collect(), zero: 0.0 }
}

struct AllCalls {
    array: Result<Out<Sym>, String>,
    array_into: Result<Out<Sym>, String>,
    single: Vec<Result<Out<Sym>, String>>,
    single_into: Vec<Result<Out<Sym>, String>>,
    scalar: Vec<Option<Result<Out<Sym>, String>>>,
}

fn check_item(it: &Item) -> Report {
    with_ctx(|c| c.reset_all());
    with_ctx(|c| c.mode = Mode::O);
    let s = &it.s;
    let mut chk = Chk::new(Mode::O, it.timeout_ms);
    chk.begin_config(&format!("{}{}", s.name(), if it.symbolic_queries { " symbolic-queries" } else { "" }));
    let v = sym_vals(s, it.symbolic_queries, it.symbolic_queries);
    let nq = s.nq();
    let lanes = s.lanes();
    let scalar_ok = s.trailing().is_empty() && !s.dynamic;
    let mut ecfg = ExploreCfg::new(Mode::O, s.nx().max(s.ny()).max(2) - 1);
    ecfg.timeout_ms = it.timeout_ms;
    let mut pn = 0usize;
    let (paths, st) = explore(&ecfg, || {
        if it.symbolic_queries {
            for i in 0..s.nx() - 1 {
                Sym::assume_lt(v.x[i], v.x[i + 1]);
            }
            if s.kind.is_2d() {
                for i in 0..s.ny() - 1 {
                    Sym::assume_lt(v.y[i], v.y[i + 1]);
                }
            }
            for k in 0..nq {
                Sym::assume_not_nan(v.qx[k]);
                Sym::assume_not_nan(v.qy[k]);
            }
        }
        let mut junk = |p: &str, i: usize| Sym::var(&format!("{p}{i}"));
        let mut poison = |i: usize| {
            pn += 1;
            Sym::var(&format!("poison{i}"))
        };
        let arrs = entry::arrays(s, &v, &mut junk);
        let built = match entry::build(s, &v, &arrs) {
            Ok(b) => b,
            Err(e) => return Err(e),
        };
        let mut c = |ep: &Ep| entry::call(s, &v, &built, ep, None, None, &mut poison, &mut |p: &str, i: usize| Sym::var(&format!("{p}{i}")));
        Ok(AllCalls {
            array: c(&Ep::Array),
            array_into: c(&Ep::ArrayInto),
            single: (0..nq).map(|k| c(&Ep::Interp(k))).collect(),
            single_into: (0..nq).map(|k| c(&Ep::InterpInto(k))).collect(),
            scalar: (0..nq).map(|k| if scalar_ok { Some(c(&Ep::Scalar(k))) } else { None }).collect(),
        })
    });
    let _ = pn;
    chk.add_explore_stats(paths.len(), &st);
    let all_vars: Vec<String> = with_ctx(|c| c.var_names.clone());
    for n in &all_vars {
        chk.term(Sym::var(n));
    }
    let kname = s.kind.name();
    let mut n_ok = 0;
    for (pi, p) in paths.iter().enumerate() {
        let pcs = chk.pc(&p.pc);
        let calls = match &p.result {
            Ok(Ok(c)) => c,
            Ok(Err(_)) => continue, // data-dependent build failure (NaN periodic ends)
            Err(m) => {
                if crate::c05::is_cast_fail(m) {
                    *chk.rep.cut_by_assumption.entry("C11: index guess of a non-NaN lookup argument is in range".into()).or_default() += 1;
                } else {
                    chk.finding(&format!("C09:panic:{kname}"), &format!("{}: {m}", s.name()), Json::obj().with("config", s.name()).with("panic", m.as_str()), natively(s, &Ep::Array).map(|r| r.is_err() && r.unwrap_err().starts_with("panic")));
                }
                continue;
            }
        };
        let same = |chk: &mut Chk, what: &str, a: Sym, b: Sym, descr: String| {
            if a.0 == b.0 {
                chk.trivially_holds(what);
                return;
            }
            let mut q = pcs.clone();
            q.push(format!("(not (= {} {}))", chk.term(a), chk.term(b)));
            if let Verdict::Cex(_) = chk.must_unsat(what, &descr, &q, &[]) {
                let rep = native_agreement(s);
                chk.finding(&format!("C09:{what}:{kname}:{:?}", s.qrank), &format!("{}: {descr}", s.name()), Json::obj().with("config", s.name()).with("native", rep.1), Some(rep.0));
            }
        };
        // error agreement
        let any_single_err = calls.single.iter().any(|r| r.is_err());
        let kinds = [("interp_array", calls.array.is_err()), ("interp_array_into", calls.array_into.is_err())];
        for (n, is_err) in kinds {
            if is_err != any_single_err && nq > 0 {
                // native replay with the query (and axis) values of a model of this path
                let vars: Vec<String> = with_ctx(|c| c.var_names.clone());
                let (_, vals) = chk.model(&pcs, &vars);
                let m = crate::c05::model_f64(&vals);
                let mut nv = entry::native_vals(s, 1);
                for k in 0..nv.qx.len() {
                    if let Some(q) = m.get(&format!("qx{k}")) {
                        nv.qx[k] = *q;
                    }
                    if let Some(q) = m.get(&format!("qy{k}")) {
                        nv.qy[k] = *q;
                    }
                }
                for k in 0..nv.x.len() {
                    if let Some(x) = m.get(&format!("x{k}")) {
                        nv.x[k] = *x;
                    }
                }
                for k in 0..nv.y.len() {
                    if let Some(y) = m.get(&format!("y{k}")) {
                        nv.y[k] = *y;
                    }
                }
                let ep = if n == "interp_array" { Ep::Array } else { Ep::ArrayInto };
                let nat_arr = entry::native_run(s, &nv, &ep, None, None);
                let nat_any_single_err = (0..nq).any(|k| entry::native_run(s, &nv, &Ep::Interp(k), None, None).is_err());
                let reproduced = nat_arr.is_err() != nat_any_single_err;
                chk.finding(&format!("C09:error-agreement:{kname}:{:?}", s.qrank), &format!("{}: path {pi}: {n} {} but the element-wise calls {}", s.name(), if is_err { "fails" } else { "succeeds" }, if any_single_err { "fail for some element" } else { "all succeed" }), Json::obj().with("config", s.name()).with("model", crate::c05::model_json(&m)).with("native_batch", format!("{:?}", nat_arr.as_ref().map(|_| "Ok"))).with("native_some_single_call_fails", nat_any_single_err), Some(reproduced));
            } else {
                chk.trivially_holds("error-agreement");
            }
        }
        for k in 0..nq {
            let e = calls.single[k].is_err();
            if calls.single_into[k].is_err() != e || calls.scalar[k].as_ref().map(|r| r.is_err() != e).unwrap_or(false) {
                chk.finding(&format!("C09:error-agreement-single:{kname}"), &format!("{}: path {pi}: interp / interp_into / interp_scalar disagree on failure for element {k}", s.name()), Json::obj().with("config", s.name()), None);
            }
        }
        if let Ok(arr) = &calls.array {
            n_ok += 1;
            // shape: query shape ++ trailing data dims
            if arr.shape != s.result_shape() {
                chk.finding(&format!("C09:result-shape:{kname}:{:?}", s.qrank), &format!("{}: interp_array returned shape {:?}, expected {:?}", s.name(), arr.shape, s.result_shape()), Json::obj().with("config", s.name()), natively(s, &Ep::Array).map(|r| r.map(|o| o.shape != s.result_shape()).unwrap_or(true)));
                continue;
            } else {
                chk.trivially_holds("result-shape");
            }
            if let Ok(into) = &calls.array_into {
                for i in 0..arr.values.len() {
                    same(&mut chk, "array_into=array", into.values[i], arr.values[i], format!("path {pi}: interp_array_into buffer element {i} = interp_array element {i}"));
                }
            }
            for k in 0..nq {
                if let Ok(single) = &calls.single[k] {
                    if single.shape != s.trailing() {
                        chk.finding(&format!("C09:single-shape:{kname}"), &format!("{}: interp returned shape {:?}, expected {:?}", s.name(), single.shape, s.trailing()), Json::obj().with("config", s.name()), None);
                        continue;
                    }
                    for l in 0..lanes {
                        same(&mut chk, "array[i]=interp(q[i])", arr.values[k * lanes + l], single.values[l], format!("path {pi}: interp_array(q)[{k}][lane {l}] = interp(q[{k}])[lane {l}]"));
                    }
                    if let Ok(si) = &calls.single_into[k] {
                        for l in 0..lanes {
                            same(&mut chk, "interp_into=interp", si.values[l], single.values[l], format!("path {pi}: interp_into(q[{k}]) lane {l} = interp(q[{k}])"));
                        }
                    }
                    if let Some(Ok(sc)) = &calls.scalar[k] {
                        same(&mut chk, "interp_scalar=interp", sc.values[0], single.values[0], format!("path {pi}: interp_scalar(q[{k}]) = interp(q[{k}])"));
                    }
                }
            }
        }
    }
    chk.rep.witnesses_expected += 1;
    if n_ok > 0 {
        chk.rep.witnesses_found += 1;
    } else {
        chk.rep.errors.push(format!("{}: no path where interp_array answered", s.name()));
    }
    // translator validation: the agreement statements also hold natively at f64 on generic values
    if chk.rep.findings.is_empty() && !it.symbolic_queries {
        let (bad, what) = native_agreement(s);
        chk.rep.validations += 1;
        if bad {
            chk.rep.errors.push(format!("{}: native f64 run disagrees although the symbolic run agrees: {what} (translator validation)", s.name()));
        }
    }
    // canary: with >= 2 distinct queries, element 0 of the batch must differ from the single-call result of element 1
    if nq >= 2 && lanes >= 1 {
        if let Some(Ok(Ok(c))) = paths.iter().map(|p| &p.result).find(|r| matches!(r, Ok(Ok(c)) if c.array.is_ok() && c.single.iter().all(|s| s.is_ok()))) {
            let (a, b) = (c.array.as_ref().unwrap().values[0], c.single[1].as_ref().unwrap().values[0]);
            chk.rep.canaries_expected += 1;
            if a.0 != b.0 {
                let q = [format!("(not (= {} {}))", chk.term(a), chk.term(b))];
                if matches!(chk.feasible(&q), crate::engine::smt::Answer::Sat) {
                    chk.rep.canaries_fired += 1;
                } else {
                    chk.rep.errors.push(format!("{}: canary (batch element 0 vs single result of element 1) not refuted", s.name()));
                }
            } else {
                chk.rep.errors.push(format!("{}: canary: distinct queries gave identical terms", s.name()));
            }
        }
    }
    chk.rep
}

fn natively(s: &Scen, ep: &Ep) -> Option<Result<Out<f64>, String>> {
    let v = entry::native_vals(s, 1);
    Some(entry::native_run(s, &v, ep, None, None))
}
/// native check of the agreement statements on generic f64 values: (violated?, description)
fn native_agreement(s: &Scen) -> (bool, String) {
    let v = entry::native_vals(s, 1);
    let arr = entry::native_run(s, &v, &Ep::Array, None, None);
    let into = entry::native_run(s, &v, &Ep::ArrayInto, None, None);
    let lanes = s.lanes();
    let mut bad = vec![];
    if let (Ok(a), Ok(b)) = (&arr, &into) {
        if a.values.iter().zip(&b.values).any(|(x, y)| x.to_bits() != y.to_bits()) {
            bad.push("interp_array_into != interp_array".to_string());
        }
    } else if arr.is_ok() != into.is_ok() {
        bad.push(format!("interp_array {:?} vs interp_array_into {:?}", arr.as_ref().map(|_| ()), into.as_ref().map(|_| ())));
    }
    if let Ok(a) = &arr {
        for k in 0..s.nq() {
            match entry::native_run(s, &v, &Ep::Interp(k), None, None) {
                Ok(single) => {
                    for l in 0..lanes {
                        if a.values[k * lanes + l].to_bits() != single.values[l].to_bits() {
                            bad.push(format!("interp_array[{k}][{l}] != interp(q[{k}])[{l}]"));
                        }
                    }
                }
                Err(e) => bad.push(format!("interp(q[{k}]): {e}")),
            }
        }
    }
    (!bad.is_empty(), bad.join("; "))
}

fn items(args: &Args) -> Vec<Item> {
    let thorough = args.thorough();
    let timeout_ms = if thorough { 60_000 } else { 20_000 };
    let mut v = vec![];
    let base = |kind: Kind, shape: Vec<usize>, dynamic: bool, qshape: Vec<usize>, qrank: QRank, extrapolate: bool, default_axes: bool| Scen { kind, shape, dynamic, extrapolate, default_axes, lay_data: Layout::C, lay_x: Layout::C, lay_y: Layout::C, lay_q: Layout::C, lay_buf: Layout::C, qshape, qrank };
    let mut trailings: Vec<Vec<usize>> = vec![vec![], vec![2], vec![2, 1], vec![0], vec![1, 2, 1]];
    if thorough {
        trailings.extend([vec![2, 1, 1, 2], vec![1, 1, 2, 1, 2], vec![2, 0, 1]]);
    }
    let mut qshapes: Vec<(Vec<usize>, QRank)> = vec![(vec![], QRank::Static), (vec![0], QRank::Static), (vec![1], QRank::Static), (vec![3], QRank::Static), (vec![2, 2], QRank::Static), (vec![1, 0], QRank::Static), (vec![2, 1, 2], QRank::Static), (vec![2, 3, 2], QRank::Static), (vec![], QRank::Dyn), (vec![3], QRank::Dyn), (vec![2, 2], QRank::Dyn)];
    if thorough {
        qshapes.extend([(vec![1, 2, 1, 2], QRank::Static), (vec![0], QRank::Dyn), (vec![2, 1, 2], QRank::Dyn), (vec![0, 3], QRank::Static)]);
    }
    for (ti, tr) in trailings.iter().enumerate() {
        for (qi, (qs, qr)) in qshapes.iter().enumerate() {
            // rotate strategies so that every (trailing, query) pair is seen by at least one, all pairs by Linear
            let kinds: Vec<Kind> = if thorough { vec![Kind::Linear, Kind::Spline(Bc::NotAKnot), Kind::Bilinear] } else { match (ti + qi) % 3 { 0 => vec![Kind::Linear, Kind::Bilinear], 1 => vec![Kind::Linear, Kind::Spline(Bc::NotAKnot)], _ => vec![Kind::Bilinear, Kind::Spline(Bc::Natural)] } };
            for kind in kinds {
                let mut shape = if kind.is_2d() { vec![2, 3] } else { vec![3] };
                shape.extend(tr);
                let dynamic = (ti + qi) % 4 == 3;
                if shape.len() > 6 && !dynamic {
                    continue;
                }
                v.push(Item { s: base(kind.clone(), shape, dynamic, qs.clone(), *qr, (ti + qi) % 2 == 0, kind.is_2d() && qi % 2 == 0), symbolic_queries: false, timeout_ms });
            }
        }
    }
    // combined rank > 6 becomes dynamic
    v.push(Item { s: base(Kind::Linear, vec![3, 1, 2, 1, 1, 2], false, vec![2, 1], QRank::Static, true, true), symbolic_queries: false, timeout_ms });
    v.push(Item { s: base(Kind::Bilinear, vec![2, 2, 1, 2, 1, 2], false, vec![1, 2, 1], QRank::Static, true, true), symbolic_queries: false, timeout_ms });
    // symbolic axes and queries, batches of <= 2: error agreement for every value
    for (kind, shape) in [(Kind::Linear, vec![3]), (Kind::Linear, vec![2, 2]), (Kind::Spline(Bc::NotAKnot), vec![3]), (Kind::Bilinear, vec![2, 2])] {
        for (qs, qr) in [(vec![2], QRank::Static), (vec![1, 2], QRank::Static), (vec![2], QRank::Dyn), (vec![], QRank::Static)] {
            if kind.is_2d() && qs.len() == 2 && !thorough {
                continue;
            }
            v.push(Item { s: base(kind.clone(), shape.clone(), false, qs.clone(), qr, false, false), symbolic_queries: true, timeout_ms });
            if !matches!(kind, Kind::Spline(_)) || qs.len() < 2 {
                v.push(Item { s: base(kind.clone(), shape.clone(), false, qs, qr, true, false), symbolic_queries: true, timeout_ms });
            }
        }
    }
    v
}

pub fn run(args: &Args) -> Report {
    let mut rep = par_run(items(args), args.threads, check_item);
    crate::validate::validate_linear(args.seed, &mut rep);
    for f in ["interp1d::Interp1D::interp_scalar", "interp1d::Interp1D::interp", "interp1d::Interp1D::interp_into", "interp1d::Interp1D::interp_array", "interp1d::Interp1D::interp_array_into", "interp1d::Interp1D::interp_array_into_1d", "interp1d::Interp1D::get_buffer_shape", "interp2d::Interp2D::interp_scalar", "interp2d::Interp2D::interp", "interp2d::Interp2D::interp_into", "interp2d::Interp2D::interp_array", "interp2d::Interp2D::interp_array_into", "interp2d::Interp2D::interp_array_into_1d", "interp2d::Interp2D::get_buffer_shape", "dim_extensions::DimExtension::new"] {
        rep.functions.insert(f.to_string());
    }
    rep.bounds.push(format!("Interp1D (Linear, one CubicSpline) over data (3, trailing) and Interp2D (Bilinear) over (2,3, trailing) with trailing in (), (2), (2,1), (0), (1,2,1){}; static and IxDyn data; combined rank > 6 (dynamic result)", if args.thorough() { ", (2,1,1,2), (1,1,2,1,2), (2,0,1)" } else { "" }));
    rep.bounds.push(format!("query dimension types Ix0, Ix1 (lengths 0,1,3), Ix2 (2x2, 1x0), Ix3 (2x1x2, 2x3x2){} and IxDyn of rank 0, 1, 2{}; every data value a symbol; queries distinct exactly representable constants, or symbols (with symbolic axes) for batches of <= 2 elements", if args.thorough() { ", Ix4" } else { "" }, if args.thorough() { ", 3" } else { "" }));
    rep.outside.push("query ranks above 4 (static); axis lengths above 3".into());
    rep.assumptions.insert("mode O: comparisons bit-precise IEEE, arithmetic uninterpreted; equal recorded terms are equal IEEE values".into());
    rep.assumptions.insert("C11 (engine K) for index-guess casts in the symbolic-query scenarios".into());
    rep
}
