//! C14: *_into calls fill exactly the caller's buffer or reject a wrongly shaped one. Mode O, symbolic data.
//!  (a) the buffer is a window (offset or every-2nd-element) into a larger array; every cell inside and outside
//!      starts as a fresh poison symbol; after an Ok return every window cell equals the allocating variant's
//!      term (hence overwritten) and every cell outside the window is still its poison symbol;
//!  (b) buffers whose shape differs from the required one (each axis -1 / +1, trailing axes permuted, leading
//!      axes permuted, same element count but other shape, wrong dynamic rank) and, in 2-D, x/y query arrays
//!      of different shapes, must have no Ok path.
use crate::api::QRank;
use crate::c09::sym_vals;
use crate::common::Args;
use crate::engine::core::{explore, with_ctx, ExploreCfg, Mode, Node, Sym};
use crate::engine::json::Json;
use crate::engine::report::{par_run, Chk, Report, Verdict};
use crate::entry::{self, Ep, Scen};
use crate::layout::Layout;
use crate::prob::Kind;
use crate::spline::Bc;

#[derive(Clone, Debug)]
enum What {
    /// correct shape, windowed buffer
    Fill(Ep),
    /// wrong buffer shape
    WrongBuf(Ep, Vec<usize>, &'static str),
    /// 2-D: ys has another shape than xs
    WrongYs(Ep, Vec<usize>),
}
#[derive(Clone, Debug)]
struct Item {
    s: Scen,
    what: What,
    timeout_ms: u64,
}
impl Item {
    fn name(&self) -> String {
        match &self.what {
            What::Fill(ep) => format!("fill {} :: {}", ep.name(), self.s.name()),
            What::WrongBuf(ep, sh, why) => format!("wrong buffer {sh:?} ({why}; required {:?}) {} :: {}", if matches!(ep, Ep::ArrayInto) { self.s.result_shape() } else { self.s.trailing() }, ep.name(), self.s.name()),
            What::WrongYs(ep, sh) => format!("ys shape {sh:?} vs xs {:?} {} :: {}", self.s.qshape, ep.name(), self.s.name()),
        }
    }
}
fn is_poison(t: Sym) -> Option<String> {
    with_ctx(|c| match c.node(t.0) {
        Node::Var(v) => {
            let n = c.var_names[*v as usize].clone();
            if n.starts_with("poison") {
                Some(n)
            } else {
                None
            }
        }
        _ => None,
    })
}
fn path_class(s: &Scen) -> &'static str {
    if s.qrank == QRank::Static && s.qshape.len() == 1 {
        "fast-path"
    } else {
        "general-path"
    }
}

fn check_item(it: &Item) -> Report {
    with_ctx(|c| c.reset_all());
    with_ctx(|c| c.mode = Mode::O);
    let s = &it.s;
    let mut chk = Chk::new(Mode::O, it.timeout_ms);
    chk.begin_config(&it.name());
    // single-query calls with a wrong buffer are explored with a SYMBOLIC query (and axis): a value-triggered
    // shortcut (query exactly on a knot, flat segment, ...) that skips the shape-checked path is then a path
    let symbolic = matches!(&it.what, What::WrongBuf(Ep::InterpInto(_), _, _));
    let v = sym_vals(s, symbolic, symbolic);
    let mut ecfg = ExploreCfg::new(Mode::O, s.nx().max(s.ny()).max(2) - 1);
    ecfg.timeout_ms = it.timeout_ms;
    let kname = s.kind.name();
    let assume_pre = |v: &crate::entry::Vals<Sym>| {
        if symbolic {
            if !s.default_axes {
                for i in 0..s.nx() - 1 {
                    Sym::assume_lt(v.x[i], v.x[i + 1]);
                }
                for i in 0..s.ny().max(1) - 1 {
                    Sym::assume_lt(v.y[i], v.y[i + 1]);
                }
            }
            for q in v.qx.iter().chain(v.qy.iter()) {
                Sym::assume_not_nan(*q);
            }
        }
    };
    match &it.what {
        What::Fill(ep) => {
            let alloc_ep = match ep {
                Ep::ArrayInto => Ep::Array,
                Ep::InterpInto(k) => Ep::Interp(*k),
                e => e.clone(),
            };
            let mut plain = s.clone();
            plain.lay_buf = Layout::C;
            let (paths, st) = explore(&ecfg, || {
                let into = entry::run(s, &v, ep, None, None, &mut |i| Sym::var(&format!("poison{i}")), &mut |p, i| Sym::var(&format!("{p}{i}")));
                let alloc = entry::run(&plain, &v, &alloc_ep, None, None, &mut |i| Sym::var(&format!("poisonx{i}")), &mut |p, i| Sym::var(&format!("{p}{i}")));
                (into, alloc)
            });
            chk.add_explore_stats(paths.len(), &st);
            let mut n_ok = 0;
            for (pi, p) in paths.iter().enumerate() {
                let pcs = chk.pc(&p.pc);
                match &p.result {
                    Ok((Ok(into), Ok(alloc))) => {
                        n_ok += 1;
                        // window = allocating result, element by element
                        for i in 0..alloc.values.len() {
                            if into.values[i].0 == alloc.values[i].0 {
                                chk.trivially_holds("buffer=allocating-variant");
                            } else {
                                let mut q = pcs.clone();
                                q.push(format!("(not (= {} {}))", chk.term(into.values[i]), chk.term(alloc.values[i])));
                                if let Verdict::Cex(_) = chk.must_unsat("buffer=allocating-variant", &format!("path {pi} element {i}"), &q, &[]) {
                                    let nv = entry::native_vals(s, 3);
                                    let (a, b) = (entry::native_run(s, &nv, ep, None, None), entry::native_run(&plain, &nv, &alloc_ep, None, None));
                                    let differs = match (&a, &b) {
                                        (Ok(x), Ok(y)) => x.values.iter().zip(&y.values).any(|(p, q)| p.to_bits() != q.to_bits()),
                                        _ => true,
                                    };
                                    chk.finding(&format!("C14:buffer-differs-from-allocating:{kname}:{}", path_class(s)), &format!("{}: buffer element {i} is not what the allocating variant returns", it.name()), Json::obj().with("config", it.name()).with("native_into", format!("{a:?}")).with("native_alloc", format!("{b:?}")), Some(differs));
                                }
                            }
                            if let Some(pn) = is_poison(into.values[i]) {
                                chk.finding(&format!("C14:cell-not-overwritten:{kname}:{}", path_class(s)), &format!("{}: buffer element {i} still holds its initial content ({pn}) after Ok", it.name()), Json::obj().with("config", it.name()), Some(true));
                            }
                        }
                        // memory outside the window untouched: every backing cell is either a window value or its own poison
                        let mut outside_ok = 0;
                        for (bi, t) in into.backing.iter().enumerate() {
                            if into.values.iter().any(|w| w.0 == t.0) {
                                continue;
                            }
                            match is_poison(*t) {
                                Some(n) if n == format!("poison{bi}") => outside_ok += 1,
                                other => chk.finding(&format!("C14:write-outside-buffer:{kname}:{}", path_class(s)), &format!("{}: backing cell {bi} outside the buffer view changed to {other:?}", it.name()), Json::obj().with("config", it.name()), None),
                            }
                        }
                        for _ in 0..outside_ok {
                            chk.trivially_holds("outside-untouched");
                        }
                    }
                    Ok((a, b)) => {
                        let k = |r: &Result<entry::Out<Sym>, String>| r.as_ref().map(|_| "Ok".to_string()).unwrap_or_else(|e| e.clone());
                        if k(a) != k(b) {
                            chk.finding(&format!("C14:into-and-allocating-disagree:{kname}"), &format!("{}: into {} vs allocating {}", it.name(), k(a), k(b)), Json::obj().with("config", it.name()), None);
                        }
                    }
                    Err(m) => {
                        // a correctly shaped buffer must be accepted whatever its strides (also C13)
                        let nv = entry::native_vals(s, 3);
                        let nat = entry::native_run(s, &nv, ep, None, None);
                        chk.finding(&format!("C14:correct-buffer-rejected:{kname}:{}:{:?}", path_class(s), s.lay_buf), &format!("{}: correctly shaped buffer rejected: {m}", it.name()), Json::obj().with("config", it.name()).with("native", format!("{:?}", nat.as_ref().map(|_| "Ok"))), Some(nat.is_err()));
                    }
                }
            }
            chk.rep.witnesses_expected += 1;
            if n_ok > 0 || !chk.rep.findings.is_empty() {
                chk.rep.witnesses_found += 1;
            } else {
                chk.rep.errors.push(format!("{}: no Ok path", it.name()));
            }
        }
        What::WrongBuf(ep, shape, why) => {
            let (paths, st) = explore(&ecfg, || {
                assume_pre(&v);
                entry::run(s, &v, ep, Some(shape), None, &mut |i| Sym::var(&format!("poison{i}")), &mut |p, i| Sym::var(&format!("{p}{i}")))
            });
            chk.add_explore_stats(paths.len(), &st);
            for p in &paths {
                match &p.result {
                    Ok(Ok(_)) => {
                        let mut nv = entry::native_vals(s, 3);
                        if symbolic {
                            // replay with the query (and axis) values of a model of this path
                            let vars: Vec<String> = with_ctx(|c| c.var_names.clone());
                            for n in &vars {
                                chk.term(Sym::var(n));
                            }
                            let pcs = chk.pc(&p.pc);
                            let (_, vals) = chk.model(&pcs, &vars);
                            let m = crate::c05::model_f64(&vals);
                            for k in 0..nv.qx.len() {
                                if let Some(q) = m.get(&format!("qx{k}")) {
                                    nv.qx[k] = *q;
                                }
                                if let Some(q) = m.get(&format!("qy{k}")) {
                                    nv.qy[k] = *q;
                                }
                            }
                            if !s.default_axes {
                                for k in 0..nv.x.len() {
                                    if let Some(x) = m.get(&format!("x{k}")) {
                                        nv.x[k] = *x;
                                    }
                                }
                                for k in 0..nv.y.len() {
                                    if let Some(y) = m.get(&format!("y{k}")) {
                                        nv.y[k] = *y;
                                    }
                                }
                            }
                        }
                        let nat = entry::native_run(s, &nv, ep, Some(shape), None);
                        let empty = if s.nq() == 0 && matches!(ep, Ep::ArrayInto) { ":empty-query" } else { "" };
                        chk.finding(&format!("C14:wrong-buffer-accepted:{}:{}:{why}{empty}", if s.kind.is_2d() { "Interp2D" } else { "Interp1D" }, path_class(s)), &format!("{}: Ok returned for a wrongly shaped buffer", it.name()), Json::obj().with("config", it.name()).with("native", format!("{:?}", nat.as_ref().map(|o| o.shape.clone()))), Some(nat.is_ok()));
                    }
                    Ok(Err(e)) => {
                        *chk.rep.kinds.entry(format!("wrong buffer answered with an error value ({e}) instead of a panic")).or_default() += 1;
                        chk.trivially_holds("wrong-buffer-not-Ok");
                    }
                    Err(m) if m.contains("harness misuse") => chk.rep.errors.push(format!("{}: {m}", it.name())),
                    Err(_) => chk.trivially_holds("wrong-buffer-not-Ok"),
                }
            }
            chk.rep.witnesses_expected += 1;
            chk.rep.witnesses_found += (!paths.is_empty()) as u64;
        }
        What::WrongYs(ep, ys) => {
            let (paths, st) = explore(&ecfg, || entry::run(s, &v, ep, None, Some(ys), &mut |i| Sym::var(&format!("poison{i}")), &mut |p, i| Sym::var(&format!("{p}{i}"))));
            chk.add_explore_stats(paths.len(), &st);
            for p in &paths {
                match &p.result {
                    Ok(Ok(_)) => {
                        let nv = entry::native_vals(s, 3);
                        let nat = entry::native_run(s, &nv, ep, None, Some(ys));
                        chk.finding(&format!("C14:xs-ys-shape-mismatch-accepted:{}", path_class(s)), &format!("{}: Ok returned for x/y query arrays of different shapes", it.name()), Json::obj().with("config", it.name()), Some(nat.is_ok()));
                    }
                    Err(m) if m.contains("harness misuse") => chk.rep.errors.push(format!("{}: {m}", it.name())),
                    _ => chk.trivially_holds("xs-ys-mismatch-not-Ok"),
                }
            }
            chk.rep.witnesses_expected += 1;
            chk.rep.witnesses_found += (!paths.is_empty()) as u64;
        }
    }
    // translator validation: the same scenario natively at f64 must have the same outcome class as the symbolic run
    // (a mismatch means the harness or the Sym instantiation misrepresents the code: reported as an error, exit 2)
    {
        let nv = entry::native_vals(s, 3);
        let (ep, buf, ys): (&Ep, Option<&[usize]>, Option<&[usize]>) = match &it.what {
            What::Fill(ep) => (ep, None, None),
            What::WrongBuf(ep, sh, _) => (ep, Some(sh), None),
            What::WrongYs(ep, ys) => (ep, None, Some(ys)),
        };
        let nat_ok = entry::native_run(s, &nv, ep, buf, ys).is_ok();
        let sym_ok_expected = matches!(&it.what, What::Fill(_));
        chk.rep.validations += 1;
        if chk.rep.findings.is_empty() && nat_ok != sym_ok_expected {
            chk.rep.errors.push(format!("{}: native run {} but the symbolic run {} (translator validation)", it.name(), if nat_ok { "succeeds" } else { "fails" }, if sym_ok_expected { "succeeded" } else { "was rejected" }));
        }
    }
    chk.rep
}

fn wrong_shapes(required: &[usize], lead: usize, allow_rank_change: bool) -> Vec<(Vec<usize>, &'static str)> {
    let mut v: Vec<(Vec<usize>, &'static str)> = vec![];
    for d in 0..required.len() {
        let mut s = required.to_vec();
        s[d] += 1;
        v.push((s, if d < lead { "leading-axis+1" } else { "trailing-axis+1" }));
        if required[d] > 0 {
            let mut s = required.to_vec();
            s[d] -= 1;
            v.push((s, if d < lead { "leading-axis-1" } else { "trailing-axis-1" }));
        }
    }
    let tr = &required[lead..];
    if tr.len() >= 2 && tr[0] != tr[tr.len() - 1] {
        let mut s = required[..lead].to_vec();
        s.extend(tr.iter().rev());
        v.push((s, "trailing-axes-permuted"));
    }
    if lead >= 2 && required[0] != required[lead - 1] {
        let mut s: Vec<usize> = required[..lead].iter().rev().copied().collect();
        s.extend(tr);
        v.push((s, "leading-axes-permuted"));
    }
    // same element count, other factorisation of the trailing part
    if tr.len() == 2 && tr[0] * tr[1] > 0 && tr[0] != 1 && tr[1] != 1 {
        let mut s = required[..lead].to_vec();
        s.extend([1, tr[0] * tr[1]]);
        v.push((s, "same-count-other-trailing-shape"));
    }
    if lead == 1 && !tr.is_empty() && required[0] > 0 && tr[0] > 0 && required[0] != tr[0] {
        let mut s = required.to_vec();
        s.swap(0, 1);
        v.push((s, "leading-and-trailing-swapped"));
    }
    if allow_rank_change {
        let mut s = required.to_vec();
        s.push(1);
        v.push((s, "dynamic-rank+1"));
        if required.len() >= 2 {
            let total: usize = required.iter().product();
            v.push((vec![total], "dynamic-rank-flattened"));
        }
    }
    v
}

fn items(args: &Args) -> Vec<Item> {
    let deep = args.thorough();
    let thorough = true; // the former thorough set costs ~3 s and is now the quick tier as well
    let timeout_ms = 20_000;
    let mut v = vec![];
    let mk = |kind: Kind, shape: Vec<usize>, dynamic: bool, qshape: Vec<usize>, qrank: QRank, lay_buf: Layout| Scen { kind, shape, dynamic, extrapolate: true, default_axes: true, lay_data: Layout::C, lay_x: Layout::C, lay_y: Layout::C, lay_q: Layout::C, lay_buf, qshape, qrank };
    let mut scens: Vec<(Kind, Vec<usize>, bool)> = vec![(Kind::Linear, vec![3, 2, 3], false), (Kind::Linear, vec![3, 2], false), (Kind::Spline(Bc::Natural), vec![3, 3], false), (Kind::Bilinear, vec![2, 3, 2, 3], false), (Kind::Bilinear, vec![2, 2, 3], false), (Kind::Linear, vec![3, 2, 3], true), (Kind::Bilinear, vec![2, 2, 3], true)];
    if thorough {
        scens.extend([(Kind::Linear, vec![3], false), (Kind::Linear, vec![3, 1, 2, 2], false), (Kind::Spline(Bc::NotAKnot), vec![4, 2, 3], true), (Kind::Bilinear, vec![3, 2], false)]);
    }
    if deep {
        scens.extend([(Kind::Linear, vec![4, 3, 2, 2], false), (Kind::Spline(Bc::Periodic), vec![4, 2], false), (Kind::Bilinear, vec![3, 2, 2, 3], true), (Kind::Linear, vec![2, 1], false)]);
    }
    let mut qsets: Vec<(Vec<usize>, QRank)> = vec![(vec![2], QRank::Static), (vec![2, 3], QRank::Static), (vec![2], QRank::Dyn), (vec![0], QRank::Static), (vec![0, 2], QRank::Static)];
    if thorough {
        qsets.extend([(vec![2, 1, 3], QRank::Static), (vec![1, 2], QRank::Dyn), (vec![0], QRank::Dyn), (vec![], QRank::Static), (vec![1, 2, 3, 1], QRank::Static), (vec![0, 3, 2], QRank::Static), (vec![2, 2, 2], QRank::Dyn)]);
    }
    for (kind, shape, dynamic) in &scens {
        for (qs, qr) in &qsets {
            for lay in [Layout::Window, Layout::Strided] {
                let s = mk(kind.clone(), shape.clone(), *dynamic, qs.clone(), *qr, lay);
                v.push(Item { s: s.clone(), what: What::Fill(Ep::ArrayInto), timeout_ms });
                if s.nq() > 0 {
                    v.push(Item { s: s.clone(), what: What::Fill(Ep::InterpInto(0)), timeout_ms });
                }
            }
            let s = mk(kind.clone(), shape.clone(), *dynamic, qs.clone(), *qr, Layout::C);
            let allow_rank = *dynamic && *qr == QRank::Dyn;
            for (ws, why) in wrong_shapes(&s.result_shape(), qs.len(), allow_rank) {
                v.push(Item { s: s.clone(), what: What::WrongBuf(Ep::ArrayInto, ws, why), timeout_ms });
            }
            if s.nq() > 0 && !s.trailing().is_empty() {
                for (ws, why) in wrong_shapes(&s.trailing(), 0, *dynamic) {
                    v.push(Item { s: s.clone(), what: What::WrongBuf(Ep::InterpInto(0), ws, why), timeout_ms });
                }
            }
            if kind.is_2d() && !qs.is_empty() {
                let mut ys = qs.clone();
                ys[0] += 1;
                v.push(Item { s: s.clone(), what: What::WrongYs(Ep::Array, ys.clone()), timeout_ms });
                v.push(Item { s: s.clone(), what: What::WrongYs(Ep::ArrayInto, ys), timeout_ms });
                if qs.len() >= 2 && qs[0] != qs[qs.len() - 1] {
                    let ys: Vec<usize> = qs.iter().rev().copied().collect();
                    v.push(Item { s: s.clone(), what: What::WrongYs(Ep::ArrayInto, ys), timeout_ms });
                }
                if qs.len() >= 3 {
                    // same rank, same element count, same first and last axis, middle axes differ
                    let mut ys = qs.clone();
                    ys[1] += 1;
                    v.push(Item { s: s.clone(), what: What::WrongYs(Ep::ArrayInto, ys.clone()), timeout_ms });
                    v.push(Item { s: s.clone(), what: What::WrongYs(Ep::Array, ys), timeout_ms });
                }
                if qs.len() == 4 && qs[1] != qs[2] {
                    let mut ys = qs.clone();
                    ys.swap(1, 2);
                    v.push(Item { s: s.clone(), what: What::WrongYs(Ep::ArrayInto, ys.clone()), timeout_ms });
                    v.push(Item { s: s.clone(), what: What::WrongYs(Ep::Array, ys), timeout_ms });
                }
            }
        }
    }
    v
}

pub fn run(args: &Args) -> Report {
    let mut rep = par_run(items(args), args.threads, check_item);
    for f in ["interp1d::Interp1D::interp_into", "interp1d::Interp1D::interp_array_into", "interp1d::Interp1D::interp_array_into_1d", "interp1d::Interp1D::get_buffer_shape", "interp2d::Interp2D::interp_into", "interp2d::Interp2D::interp_array_into", "interp2d::Interp2D::interp_array_into_1d", "interp2d::Interp2D::get_buffer_shape", "interp1d::strategies::linear::Linear::interp_into", "interp1d::strategies::cubic_spline::CubicSplineStrategy::interp_into", "interp2d::strategies::bilinear::Bilinear::interp_into"] {
        rep.functions.insert(f.to_string());
    }
    rep.bounds.push(format!("Interp1D over data (3,2,3), (3,2), (3,3){} and Interp2D over (2,3,2,3), (2,2,3){}, static and IxDyn data; queries Ix1 x2, Ix2 2x3, IxDyn x2, empty Ix1 and (0,2){}; buffers as offset windows and every-2nd-element windows of a larger poisoned array", if args.thorough() { ", (3), (3,1,2,2), (4,2,3), (4,3,2,2), periodic (4,2), (2,1)" } else { ", (3), (3,1,2,2), (4,2,3)" }, if args.thorough() { ", (3,2), (3,2,2,3)" } else { ", (3,2)" }, ", Ix3, IxDyn 1x2, empty IxDyn, Ix0"));
    rep.bounds.push("wrong shapes: every axis +1 / -1, trailing axes permuted, leading axes permuted, same element count with another trailing factorisation, leading and trailing swapped, dynamic rank +1 / flattened (IxDyn data and query only), x/y query arrays of different shapes (first axis +1, axes reversed, a middle axis +1, middle axes swapped with equal element count for rank-4 queries, empty rank-3 queries)".into());
    rep.outside.push("wrong static ranks are rejected by the type system and cannot be expressed".into());
    rep.assumptions.insert("mode O; every data value, buffer cell and filler cell is a distinct symbol, so 'overwritten', 'untouched' and 'equal to the allocating variant' are term identities".into());
    rep
}
