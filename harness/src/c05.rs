//! C05: without extrapolation a query is answered iff it lies in the closed axis range (NaN rejected);
//! batches fail as a whole. Mode O: axis symbolic under "strictly increasing", data and queries
//! unconstrained IEEE values (NaN, +-inf, +-0, neighbours of the ends are ordinary values of the sort).
use std::collections::BTreeMap;

use crate::api::QRank;
use crate::common::Args;
use crate::engine::core::{explore, with_ctx, ExploreCfg, Mode, Path, Sym};
use crate::engine::json::Json;
use crate::engine::report::{par_run, Chk, Report, Verdict};
use crate::engine::smt::{sx_to_f64, Answer};
use crate::prob::{native_outcome, Call, Kind, Prob};
use crate::spline::{Bc, End, Row};

#[derive(Clone, Debug)]
pub struct Cfg {
    pub kind: Kind,
    pub nx: usize,
    pub ny: usize,
    pub trailing: Vec<usize>,
    pub call: Call,
    pub extrapolate: bool,
    pub default_axes: bool,
    pub dynamic: bool,
    pub timeout_ms: u64,
}
impl Cfg {
    pub fn name(&self) -> String {
        format!("{} n={}{} trailing={:?} {} extrapolate={}{}{}", self.kind.name(), self.nx, if self.kind.is_2d() { format!("x{}", self.ny) } else { String::new() }, self.trailing, self.call.name(), self.extrapolate, if self.default_axes { " default-axes" } else { "" }, if self.dynamic { " IxDyn-data" } else { "" })
    }
    pub fn shape(&self) -> Vec<usize> {
        let mut s = vec![self.nx];
        if self.kind.is_2d() {
            s.push(self.ny);
        }
        s.extend(&self.trailing);
        s
    }
    pub fn lanes(&self) -> usize {
        self.trailing.iter().product()
    }
}

/// the symbolic problem of a configuration: axis variables x*, y*, data d*, boundary values, queries qx*/qy*
pub struct Syms {
    pub prob: Prob<Sym>,
    pub qs: Vec<(Sym, Sym)>,
}
pub fn symbols(cfg: &Cfg, sfx: &str) -> Syms {
    let idx = |n: usize| (0..n).map(|i| Sym::int(i as i128)).collect::<Vec<_>>();
    let x: Vec<Sym> = if cfg.default_axes { idx(cfg.nx) } else { (0..cfg.nx).map(|i| Sym::var(&format!("x{i}{sfx}"))).collect() };
    let y: Vec<Sym> = if cfg.default_axes { idx(cfg.ny) } else { (0..cfg.ny).map(|i| Sym::var(&format!("y{i}{sfx}"))).collect() };
    let shape = cfg.shape();
    let total: usize = shape.iter().product();
    let lanes = cfg.lanes();
    let mut data: Vec<Sym> = (0..total).map(|i| Sym::var(&format!("d{i}{sfx}"))).collect();
    if let Kind::Spline(Bc::Periodic) = cfg.kind {
        for j in 0..lanes {
            data[(cfg.nx - 1) * lanes + j] = data[j];
        }
    }
    let nq = cfg.call.n_queries();
    let prob = Prob {
        kind: cfg.kind.clone(),
        x: if cfg.default_axes { None } else { Some(x) },
        y: if cfg.default_axes || !cfg.kind.is_2d() { None } else { Some(y) },
        shape,
        data,
        vl: (0..lanes).map(|j| Sym::var(&format!("vl{j}{sfx}"))).collect(),
        vr: (0..lanes).map(|j| Sym::var(&format!("vr{j}{sfx}"))).collect(),
        extrapolate: cfg.extrapolate,
        dynamic: cfg.dynamic,
    };
    let qs = (0..nq).map(|i| (Sym::var(&format!("qx{i}")), if cfg.kind.is_2d() { Sym::var(&format!("qy{i}")) } else { Sym::int(0) })).collect();
    Syms { prob, qs }
}
/// axis terms (explicit symbolic or default index constants)
pub fn axis_terms(cfg: &Cfg, s: &Syms) -> (Vec<Sym>, Vec<Sym>) {
    let idx = |n: usize| (0..n).map(|i| Sym::int(i as i128)).collect::<Vec<_>>();
    (s.prob.x.clone().unwrap_or(idx(cfg.nx)), s.prob.y.clone().unwrap_or(idx(cfg.ny)))
}
/// precondition: valid (strictly increasing, hence NaN-free) axes
pub fn assume_valid_axes(cfg: &Cfg, s: &Syms) {
    if let Some(x) = &s.prob.x {
        for i in 0..cfg.nx - 1 {
            Sym::assume_lt(x[i], x[i + 1]);
        }
    }
    if let Some(y) = &s.prob.y {
        for i in 0..cfg.ny - 1 {
            Sym::assume_lt(y[i], y[i + 1]);
        }
    }
}
pub fn in_range_text(chk: &mut Chk, cfg: &Cfg, s: &Syms, q: (Sym, Sym)) -> String {
    let (x, y) = axis_terms(cfg, s);
    let mut t = format!("(and (fp.leq {} {qx}) (fp.leq {qx} {}))", chk.term(x[0]), chk.term(x[cfg.nx - 1]), qx = chk.term(q.0));
    if cfg.kind.is_2d() {
        t = format!("(and {t} (fp.leq {} {qy}) (fp.leq {qy} {}))", chk.term(y[0]), chk.term(y[cfg.ny - 1]), qy = chk.term(q.1));
    }
    t
}
pub fn model_f64(vals: &[(String, String)]) -> BTreeMap<String, f64> {
    vals.iter().filter_map(|(k, v)| sx_to_f64(v).map(|r| (k.clone(), r))).collect()
}
/// instantiate the configuration natively at f64 from a model
pub fn native_problem(cfg: &Cfg, m: &BTreeMap<String, f64>, sfx: &str) -> (Prob<f64>, Vec<(f64, f64)>) {
    let g = |k: String| *m.get(&k).unwrap_or(&0.0);
    let shape = cfg.shape();
    let total: usize = shape.iter().product();
    let lanes = cfg.lanes();
    let mut data: Vec<f64> = (0..total).map(|i| g(format!("d{i}{sfx}"))).collect();
    if let Kind::Spline(Bc::Periodic) = cfg.kind {
        for j in 0..lanes {
            data[(cfg.nx - 1) * lanes + j] = data[j];
        }
    }
    let prob = Prob {
        kind: cfg.kind.clone(),
        x: if cfg.default_axes { None } else { Some((0..cfg.nx).map(|i| g(format!("x{i}{sfx}"))).collect()) },
        y: if cfg.default_axes || !cfg.kind.is_2d() { None } else { Some((0..cfg.ny).map(|i| g(format!("y{i}{sfx}"))).collect()) },
        shape,
        data,
        vl: (0..lanes).map(|j| g(format!("vl{j}{sfx}"))).collect(),
        vr: (0..lanes).map(|j| g(format!("vr{j}{sfx}"))).collect(),
        extrapolate: cfg.extrapolate,
        dynamic: cfg.dynamic,
    };
    let qs = (0..cfg.call.n_queries()).map(|i| (g(format!("qx{i}")), g(format!("qy{i}")))).collect();
    (prob, qs)
}
pub fn model_json(m: &BTreeMap<String, f64>) -> Json {
    let mut j = Json::obj();
    for (k, v) in m {
        j.set(k, format!("{v:?} (bits {:#018x})", v.to_bits()));
    }
    j
}
pub fn is_cast_fail(msg: &str) -> bool {
    msg.contains("failed to convert")
}

/// Native replay of a mode-O candidate: the real f64 crate must answer iff every query element is in range.
/// Returns (reproduced, record, native outcome)
pub fn replay_answered_iff_in_range(cfg: &Cfg, m: &BTreeMap<String, f64>) -> (Option<bool>, Json) {
    let (prob, qs) = native_problem(cfg, m, "");
    let idx = |n: usize| (0..n).map(|i| i as f64).collect::<Vec<_>>();
    let x = prob.x.clone().unwrap_or(idx(cfg.nx));
    let y = prob.y.clone().unwrap_or(idx(cfg.ny));
    let valid = x.windows(2).all(|w| w[0] < w[1]) && (!cfg.kind.is_2d() || y.windows(2).all(|w| w[0] < w[1]));
    let inr = |q: &(f64, f64)| x[0] <= q.0 && q.0 <= x[cfg.nx - 1] && (!cfg.kind.is_2d() || (y[0] <= q.1 && q.1 <= y[cfg.ny - 1]));
    let all_in = qs.iter().all(inr);
    let (out, _) = native_outcome(&prob, &cfg.call, &qs, 0.0);
    let mut rec = Json::obj().with("config", cfg.name()).with("model", model_json(m)).with("native_outcome", out.as_str()).with("all_queries_in_range", all_in).with("axes_valid", valid);
    if !valid || out.starts_with("BuilderError") {
        rec.set("note", "model violates the preconditions natively (uninterpreted arithmetic artefact)");
        return (Some(false), rec);
    }
    let expected = if cfg.extrapolate {
        if qs.iter().any(|q| q.0.is_nan() || q.1.is_nan()) {
            return (Some(false), rec.with("note", "NaN query with extrapolation: no property promises an answer"));
        }
        "Ok"
    } else if all_in {
        "Ok"
    } else {
        "InterpolateError::OutOfBounds"
    };
    rec.set("expected_outcome", expected);
    (Some(out != expected), rec)
}

pub fn explore_cfg(cfg: &Cfg, s: &Syms) -> (Vec<Path<Result<Vec<Sym>, String>>>, crate::engine::core::ExploreStats) {
    let mut ecfg = ExploreCfg::new(Mode::O, cfg.nx.max(cfg.ny).max(2) - 1);
    ecfg.timeout_ms = cfg.timeout_ms;
    explore(&ecfg, || {
        assume_valid_axes(cfg, s);
        s.prob.run(&cfg.call, &s.qs, Sym::int(0))
    })
}

pub fn check_config(cfg: &Cfg) -> Report {
    check_config_sort(cfg, false)
}
/// `f32_sort`: ask the obligations over the SMT Float32 sort (every f32 value; the recorded comparisons are the same,
/// models are replayed natively at f64, of which f32 is a subset with identical comparison results)
pub fn check_config_sort(cfg: &Cfg, f32_sort: bool) -> Report {
    with_ctx(|c| c.reset_all());
    with_ctx(|c| c.mode = Mode::O);
    let mut chk = if f32_sort { Chk::with_session(crate::engine::smt::Session::with_solver(Mode::O, cfg.timeout_ms, "z3", (8, 24))) } else { Chk::new(Mode::O, cfg.timeout_ms) };
    chk.begin_config(&format!("{}{}", cfg.name(), if f32_sort { " [Float32 sort]" } else { "" }));
    let s = symbols(cfg, "");
    let t_ex = std::time::Instant::now();
    let (paths, st) = explore_cfg(cfg, &s);
    if std::env::var("VERIF_DEBUG").is_ok() {
        eprintln!("explore {:.2}s paths {} decisions {} prune-queries {} :: {}", t_ex.elapsed().as_secs_f64(), paths.len(), st.decisions, st.prune_queries, cfg.name());
    }
    chk.add_explore_stats(paths.len(), &st);
    let all_vars: Vec<String> = with_ctx(|c| c.var_names.clone());
    for v in &all_vars {
        chk.term(Sym::var(v));
    }
    let inr: Vec<String> = s.qs.iter().map(|q| in_range_text(&mut chk, cfg, &s, *q)).collect();
    let all_in = format!("(and true {})", inr.join(" "));
    let (mut n_ok, mut n_rej, mut n_build) = (0, 0, 0);
    let mut canary_fired = false;
    for (pi, p) in paths.iter().enumerate() {
        let pcs = chk.pc(&p.pc);
        match &p.result {
            Ok(Ok(_)) => {
                n_ok += 1;
                let mut a = pcs.clone();
                a.push(format!("(not {all_in})"));
                if let Verdict::Cex(vals) = chk.must_unsat("answered=>in-range", &format!("path {pi}: Ok implies every query element in the closed range"), &a, &all_vars) {
                    let m = model_f64(&vals);
                    let (rep, rec) = replay_answered_iff_in_range(cfg, &m);
                    chk.finding(&format!("C05:out-of-range-answered:{}:{}", cfg.kind.name(), cfg.call.name()), &format!("{}: a query outside the closed range (or NaN) is answered", cfg.name()), rec, rep);
                }
                if !canary_fired {
                    // wrong oracle: open range. Some Ok path must admit a query exactly at an end.
                    let (x, _) = axis_terms(cfg, &s);
                    let mut a = pcs.clone();
                    a.push(format!("(not (and (fp.lt {} {q}) (fp.lt {q} {})))", chk.term(x[0]), chk.term(x[cfg.nx - 1]), q = chk.term(s.qs[0].0)));
                    if matches!(chk.feasible(&a), Answer::Sat) {
                        canary_fired = true;
                    }
                }
            }
            Ok(Err(e)) if e.starts_with("InterpolateError::OutOfBounds") => {
                n_rej += 1;
                let mut a = pcs.clone();
                a.push(all_in.clone());
                if let Verdict::Cex(vals) = chk.must_unsat("rejected=>out-of-range", &format!("path {pi}: OutOfBounds implies some query element outside the closed range"), &a, &all_vars) {
                    let m = model_f64(&vals);
                    let (rep, rec) = replay_answered_iff_in_range(cfg, &m);
                    chk.finding(&format!("C05:in-range-rejected:{}:{}", cfg.kind.name(), cfg.call.name()), &format!("{}: a query inside the closed range is rejected", cfg.name()), rec, rep);
                }
            }
            Ok(Err(e)) if e.starts_with("BuilderError") => {
                n_build += 1; // data-dependent build failures (NaN periodic ends): C10's subject
            }
            Ok(Err(e)) => {
                chk.finding(&format!("C05:unexpected-error-kind:{}", cfg.kind.name()), &format!("{}: unexpected error {e}", cfg.name()), Json::obj().with("config", cfg.name()).with("error", e.as_str()), None);
            }
            Err(msg) => {
                // a panic path. Cast failures of the index guess are cut by the C11 assumption for non-NaN lookup
                // arguments; a NaN reaching the lookup, or any other panic, is a candidate violation.
                // the queries that flow into the failing cast's argument (the lookup argument of that call)
                let involved: Vec<Sym> = match p.pc.last().map(|l| &l.cond) {
                    Some(crate::engine::core::Cond::ToUsize(t, None)) => {
                        let vs = crate::engine::calc::vars_of(Sym(*t));
                        s.qs.iter().flat_map(|q| [q.0, q.1]).filter(|q| crate::engine::calc::vars_of(*q).iter().any(|v| vs.contains(v))).collect()
                    }
                    _ => s.qs.iter().flat_map(|q| [q.0, q.1]).collect(),
                };
                let nan_q = format!("(or false {})", involved.iter().map(|t| format!("(fp.isNaN {})", chk.term(*t))).collect::<Vec<_>>().join(" "));
                let cast = is_cast_fail(msg);
                let mut a = pcs.clone();
                if cast {
                    a.push(nan_q);
                }
                let (ans, vals) = chk.model(&a, &all_vars);
                match ans {
                    Answer::Sat => {
                        let m = model_f64(&vals);
                        let (rep, mut rec) = replay_answered_iff_in_range(cfg, &m);
                        rec.set("symbolic_panic", msg.as_str());
                        chk.finding(&format!("C05:panic:{}:{}", cfg.kind.name(), cfg.call.name()), &format!("{}: panic instead of an answer or OutOfBounds: {msg}", cfg.name()), rec, rep);
                    }
                    Answer::Unsat => {
                        *chk.rep.cut_by_assumption.entry("C11: index guess of a non-NaN in-range lookup argument is in range".into()).or_default() += 1;
                    }
                    Answer::Unknown(w) => chk.rep.inconclusive.push(format!("{}: panic path feasibility: {w}", cfg.name())),
                }
            }
        }
    }
    // vacuity: both outcomes occur
    chk.rep.witnesses_expected += 2;
    chk.rep.witnesses_found += (n_ok > 0) as u64 + (n_rej > 0) as u64;
    if n_ok == 0 || n_rej == 0 {
        chk.rep.errors.push(format!("{}: vacuous - Ok paths {n_ok}, OutOfBounds paths {n_rej}", cfg.name()));
    }
    chk.rep.canaries_expected += 1;
    if canary_fired {
        chk.rep.canaries_fired += 1;
    } else {
        chk.rep.errors.push(format!("{}: canary (open-range oracle) not refuted", cfg.name()));
    }
    let _ = n_build;
    chk.rep
}

pub fn spline_kinds() -> Vec<Kind> {
    vec![
        Kind::Spline(Bc::NotAKnot),
        Kind::Spline(Bc::Natural),
        Kind::Spline(Bc::Clamped),
        Kind::Spline(Bc::Periodic),
        Kind::Spline(Bc::Individual(vec![Row::Mixed(End::D1, End::Nak)])),
    ]
}

pub fn configs(args: &Args) -> Vec<Cfg> {
    let thorough = args.thorough();
    let timeout_ms = if thorough { 60_000 } else { 20_000 };
    let mut v = vec![];
    let calls_1 = |lanes0: bool| -> Vec<Call> {
        let mut c = vec![Call::Interp, Call::InterpInto, Call::Array(vec![1], QRank::Static), Call::Array(vec![2], QRank::Static), Call::Array(vec![1, 2], QRank::Static), Call::Array(vec![2], QRank::Dyn), Call::ArrayInto(vec![2], QRank::Static)];
        if lanes0 {
            c.insert(0, Call::Scalar);
        }
        c
    };
    // Linear
    for n in 2..=(if thorough { 5 } else { 4 }) {
        for trailing in [vec![], vec![2]] {
            for call in calls_1(trailing.is_empty()) {
                v.push(Cfg { kind: Kind::Linear, nx: n, ny: 0, trailing: trailing.clone(), call, extrapolate: false, default_axes: false, dynamic: false, timeout_ms });
            }
        }
        v.push(Cfg { kind: Kind::Linear, nx: n, ny: 0, trailing: vec![], call: Call::Array(vec![2], QRank::Static), extrapolate: false, default_axes: true, dynamic: false, timeout_ms });
        v.push(Cfg { kind: Kind::Linear, nx: n, ny: 0, trailing: vec![2], call: Call::Array(vec![2], QRank::Dyn), extrapolate: false, default_axes: false, dynamic: true, timeout_ms });
    }
    {
        for call in [Call::Array(vec![3], QRank::Static), Call::Array(vec![2, 2], QRank::Static), Call::ArrayInto(vec![2, 2], QRank::Dyn)] {
            v.push(Cfg { kind: Kind::Linear, nx: 3, ny: 0, trailing: vec![], call, extrapolate: false, default_axes: false, dynamic: false, timeout_ms });
        }
    }
    // CubicSpline
    for kind in spline_kinds() {
        for n in 3..=(if thorough { 5 } else { 4 }) {
            let multi = matches!(kind, Kind::Spline(Bc::Individual(_)));
            for (k, call) in calls_1(true).into_iter().enumerate() {
                let trailing = if !multi && k % 3 == 2 && call != Call::Scalar { vec![2] } else { vec![] };
                v.push(Cfg { kind: kind.clone(), nx: n, ny: 0, trailing, call, extrapolate: false, default_axes: false, dynamic: false, timeout_ms });
            }
        }
    }
    // Bilinear, non-square
    let calls_2 = |lanes0: bool| -> Vec<Call> {
        let mut c = vec![Call::Interp, Call::InterpInto, Call::Array(vec![1], QRank::Static), Call::Array(vec![2], QRank::Static), Call::Array(vec![1, 2], QRank::Static), Call::Array(vec![2], QRank::Dyn), Call::ArrayInto(vec![2], QRank::Static)];
        if lanes0 {
            c.insert(0, Call::Scalar);
        }
        c
    };
    for (nx, ny) in if thorough { vec![(2, 3), (3, 2), (3, 3), (4, 2)] } else { vec![(2, 3), (3, 2), (3, 3)] } {
        for trailing in [vec![], vec![2]] {
            for (_k, call) in calls_2(trailing.is_empty()).into_iter().enumerate() {
                v.push(Cfg { kind: Kind::Bilinear, nx, ny, trailing: trailing.clone(), call, extrapolate: false, default_axes: false, dynamic: false, timeout_ms });
            }
        }
    }
    v.push(Cfg { kind: Kind::Bilinear, nx: 2, ny: 3, trailing: vec![], call: Call::Interp, extrapolate: false, default_axes: true, dynamic: false, timeout_ms });
    v
}

pub const FUNCTIONS: &[&str] = &[
    "interp1d::Interp1D::is_in_range",
    "interp2d::Interp2D::is_in_x_range",
    "interp2d::Interp2D::is_in_y_range",
    "interp1d::strategies::linear::Linear::interp_into",
    "interp1d::strategies::cubic_spline::CubicSplineStrategy::interp_into",
    "interp2d::strategies::bilinear::Bilinear::interp_into",
    "interp1d::Interp1D::interp_scalar",
    "interp1d::Interp1D::interp",
    "interp1d::Interp1D::interp_into",
    "interp1d::Interp1D::interp_array",
    "interp1d::Interp1D::interp_array_into",
    "interp1d::Interp1D::interp_array_into_1d",
    "interp2d::Interp2D::interp_scalar",
    "interp2d::Interp2D::interp",
    "interp2d::Interp2D::interp_into",
    "interp2d::Interp2D::interp_array",
    "interp2d::Interp2D::interp_array_into",
    "interp2d::Interp2D::interp_array_into_1d",
    "vector_extensions::VectorExtensions::get_lower_index",
];

pub fn run(args: &Args) -> Report {
    let mut items: Vec<(Cfg, bool)> = configs(args).into_iter().map(|c| (c, false)).collect();
    if args.thorough() {
        // second float sort: the same configurations over all f32 values
        items.extend(configs(args).into_iter().filter(|c| c.call.n_queries() <= 2).map(|c| (c, true)));
    }
    let mut rep = par_run(items, args.threads, |(c, f32s)| check_config_sort(c, *f32s));
    if args.thorough() {
        rep.bounds.push("thorough: every configuration with batches <= 2 also over the Float32 sort (all f32 axis values, data and queries)".into());
    }
    crate::validate::validate_linear(args.seed, &mut rep);
    for f in FUNCTIONS {
        rep.functions.insert(f.to_string());
    }
    rep.bounds.push(format!("Linear n = 2..{0}; CubicSpline (NotAKnot, Natural, Clamped, Periodic, Individual[Mixed(FirstDeriv,NotAKnot)]) n = 3..{0}; Bilinear 2x3, 3x2{1}; 1 and 2 lanes", if args.thorough() { 5 } else { 4 }, if args.thorough() { ", 3x3, 4x2" } else { ", 3x3" }));
    rep.bounds.push("entry points interp_scalar, interp, interp_into, interp_array with query Ix1 x1 / Ix1 x2 / Ix2 1x2 / IxDyn x2, interp_array_into; batches of 2, 3 and 2x2 symbolic elements".into());
    rep.bounds.push("axis values: all IEEE doubles under x_i < x_i+1; data, boundary values: unconstrained IEEE doubles; every query element an unconstrained IEEE double (NaN, +-inf, +-0 included)".into());
    rep.outside.push("axis lengths above the bound; batches larger than the bound".into());
    rep.assumptions.insert("mode O: comparisons bit-precise IEEE (SMT FloatingPoint), arithmetic uninterpreted (sound over-approximation of the f64 code)".into());
    rep.assumptions.insert("C11 (engine K): for a non-NaN lookup argument strictly inside a valid axis the index guess casts to an in-range index; cast-failure branches of such lookups are cut and counted".into());
    rep
}
