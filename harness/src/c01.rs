//! C01: Linear returns the exact piecewise-linear interpolant. Mode R, fully symbolic axis (and the default
//! index axis), symbolic data and query; obligations asked per bracket with the bracket as premise.
use std::collections::BTreeMap;

use crate::api::{arr1, arrd, build_1d, QRank, Strat1};
use crate::common::Args;
use crate::engine::core::{explore, run_concrete, with_ctx, ExploreCfg, Mode, Rat, Sym};
use crate::engine::json::Json;
use crate::engine::report::{par_run, Chk, Report, Verdict};
use crate::engine::smt::sx_to_rat;

#[derive(Clone, Copy, Debug, PartialEq, Eq)]
pub enum Entry {
    Scalar,
    Interp,
    Array1,
    ArrayDyn,
}
#[derive(Clone, Debug)]
pub struct Cfg {
    pub n: usize,
    pub trailing: Vec<usize>,
    pub symbolic_axis: bool,
    pub entry: Entry,
    pub extrapolate: bool,
    pub timeout_ms: u64,
}
impl Cfg {
    pub fn name(&self) -> String {
        format!("Linear n={} trailing={:?} axis={} entry={:?} extrapolate={}", self.n, self.trailing, if self.symbolic_axis { "symbolic" } else { "default-index" }, self.entry, self.extrapolate)
    }
    pub fn lanes(&self) -> usize {
        self.trailing.iter().product()
    }
}

pub struct LinSyms {
    pub x: Vec<Sym>,
    pub y: Vec<Vec<Sym>>,
    pub q: Sym,
}
pub fn lin_symbols(n: usize, lanes: usize, symbolic_axis: bool) -> LinSyms {
    LinSyms {
        x: (0..n).map(|i| if symbolic_axis { Sym::var(&format!("x{i}")) } else { Sym::int(i as i128) }).collect(),
        y: (0..n).map(|i| (0..lanes).map(|j| Sym::var(&format!("y{i}_{j}"))).collect()).collect(),
        q: Sym::var("q"),
    }
}
/// run the real Linear interpolator on the given scalars (symbolic, constant or concolic alike)
pub fn eval_linear(cfg: &Cfg, x: &[Sym], y: &[Vec<Sym>], q: Sym) -> Result<Vec<Sym>, String> {
    let mut shape = vec![cfg.n];
    shape.extend(&cfg.trailing);
    let flat: Vec<Sym> = y.iter().flat_map(|r| r.iter().copied()).collect();
    let xa = if cfg.symbolic_axis { Some(arr1(x)) } else { None };
    let it = build_1d(xa, arrd(&shape, &flat), &Strat1::Linear { extrapolate: cfg.extrapolate }, false).map_err(|e| format!("BuilderError::{e:?}"))?;
    let r = match cfg.entry {
        Entry::Scalar => it.interp_scalar(q).map(|v| vec![v]),
        Entry::Interp => it.interp(q).map(|a| a.iter().copied().collect()),
        Entry::Array1 => it.interp_array(arr1(&[q]).into_dyn().view(), QRank::Static).map(|a| a.iter().copied().collect()),
        Entry::ArrayDyn => it.interp_array(arr1(&[q]).into_dyn().view(), QRank::Dyn).map(|a| a.iter().copied().collect()),
    };
    r.map_err(|e| format!("InterpolateError::{e:?}"))
}

/// exact replay of a model against the real crate; the oracle is the line through the bracketing points
/// (border interval when outside the range), evaluated in exact rational arithmetic
pub fn replay_linear(cfg: &Cfg, model: &BTreeMap<String, Rat>) -> (Option<bool>, Json) {
    let get = |name: &str| model.get(name).copied().unwrap_or(Rat(0, 1));
    let (n, lanes) = (cfg.n, cfg.lanes());
    let xr: Vec<Rat> = (0..n).map(|i| if cfg.symbolic_axis { get(&format!("x{i}")) } else { Rat::int(i as i128) }).collect();
    let q = get("q");
    let mut rec = Json::obj().with("config", cfg.name());
    let mut mj = Json::obj();
    for (k, v) in model {
        mj.set(k, v.to_string());
    }
    rec.set("model", mj);
    let c = |r: Rat| Sym::rat(r.0, r.1);
    let xs: Vec<Sym> = xr.iter().map(|r| c(*r)).collect();
    let ys: Vec<Vec<Sym>> = (0..n).map(|i| (0..lanes).map(|j| c(get(&format!("y{i}_{j}")))).collect()).collect();
    let got = run_concrete(Mode::R, || eval_linear(cfg, &xs, &ys, c(q)));
    let mut k = 0;
    while k + 2 < n && q.cmp(xr[k + 1]) != Some(std::cmp::Ordering::Less) {
        k += 1;
    }
    let in_range = q.cmp(xr[0]) != Some(std::cmp::Ordering::Less) && q.cmp(xr[n - 1]) != Some(std::cmp::Ordering::Greater);
    let expect: Vec<Sym> = (0..lanes).map(|j| ys[k][j] + (ys[k + 1][j] - ys[k][j]) * (c(q) - xs[k]) / (xs[k + 1] - xs[k])).collect();
    rec.set("bracket", k);
    rec.set("expected_exact", expect.iter().map(|e| e.konst().map(|r| r.to_string()).unwrap_or("?".into())).collect::<Vec<_>>());
    let reproduced = match &got {
        Ok(Ok(v)) => {
            rec.set("observed_exact", v.iter().map(|e| e.konst().map(|r| r.to_string()).unwrap_or("?".into())).collect::<Vec<_>>());
            if with_ctx(|c| c.overflowed) {
                None
            } else if !in_range && !cfg.extrapolate {
                Some(true) // answered although out of range
            } else {
                Some(v.iter().zip(&expect).any(|(a, b)| a.konst() != b.konst()))
            }
        }
        Ok(Err(e)) => {
            rec.set("observed", e.as_str());
            Some(in_range || cfg.extrapolate)
        }
        Err(e) => {
            rec.set("observed", e.as_str());
            Some(true)
        }
    };
    (reproduced, rec)
}

pub fn bracket_premise(chk: &mut Chk, s: &LinSyms, k: usize, n: usize, closed_range: bool) -> String {
    // closed bracket; at the range ends open to the outside when extrapolating
    let (q, xk, xk1) = (chk.term(s.q), chk.term(s.x[k]), chk.term(s.x[k + 1]));
    let lo = if k == 0 && !closed_range { "true".to_string() } else { format!("(<= {xk} {q})") };
    let hi = if k == n - 2 && !closed_range { "true".to_string() } else { format!("(<= {q} {xk1})") };
    format!("(and {lo} {hi})")
}
/// cross-multiplied line equation: (out - y_k)(x_{k+1}-x_k) = (y_{k+1}-y_k)(q-x_k)
pub fn line_eq(chk: &mut Chk, s: &LinSyms, out: Sym, k: usize, j: usize) -> String {
    let (o, q) = (chk.term(out), chk.term(s.q));
    let (xk, xk1, yk, yk1) = (chk.term(s.x[k]), chk.term(s.x[k + 1]), chk.term(s.y[k][j]), chk.term(s.y[k + 1][j]));
    format!("(= (* (- {o} {yk}) (- {xk1} {xk})) (* (- {yk1} {yk}) (- {q} {xk})))")
}

pub fn check_config(cfg: &Cfg) -> Report {
    check_config_for("C01", cfg)
}
/// `prop` = "C01": in-range queries, closed brackets, all corollaries; "C06": extrapolating interpolator,
/// unconstrained query, the border brackets open to the outside, line-value obligations only
pub fn check_config_for(prop: &str, cfg: &Cfg) -> Report {
    let c01 = prop == "C01";
    with_ctx(|c| c.reset_all());
    let mut chk = Chk::new(Mode::R, cfg.timeout_ms);
    chk.begin_config(&cfg.name());
    let (n, lanes) = (cfg.n, cfg.lanes());
    let s = lin_symbols(n, lanes, cfg.symbolic_axis);
    let mut ecfg = ExploreCfg::new(Mode::R, n - 1);
    ecfg.timeout_ms = cfg.timeout_ms;
    let (paths, st) = explore(&ecfg, || {
        for i in 0..n - 1 {
            Sym::assume_lt(s.x[i], s.x[i + 1]);
        }
        if c01 {
            Sym::assume_le(s.x[0], s.q);
            Sym::assume_le(s.q, s.x[n - 1]);
        }
        eval_linear(cfg, &s.x, &s.y, s.q)
    });
    chk.add_explore_stats(paths.len(), &st);
    let all_vars: Vec<String> = with_ctx(|c| c.var_names.clone());
    for v in &all_vars {
        chk.term(Sym::var(v));
    }
    let mut covered = vec![false; n - 1];
    let mut canary_done = false;
    for (pi, p) in paths.iter().enumerate() {
        let pcs = chk.pc(&p.pc);
        match &p.result {
            Ok(Ok(out)) => {
                for k in 0..n - 1 {
                    let prem = bracket_premise(&mut chk, &s, k, n, c01);
                    let mut pre = pcs.clone();
                    pre.push(prem);
                    // is this path compatible with bracket k at all? (cheap, and gives the vacuity witness)
                    if !covered[k] {
                        let strict = format!("(and (< {} {}) (< {} {}))", chk.term(s.x[k]), chk.term(s.q), chk.term(s.q), chk.term(s.x[k + 1]));
                        let mut w = pcs.clone();
                        w.push(strict);
                        if matches!(chk.feasible(&w), crate::engine::smt::Answer::Sat) {
                            covered[k] = true;
                        }
                    }
                    for j in 0..lanes {
                        let eq = line_eq(&mut chk, &s, out[j], k, j);
                        let mut a = pre.clone();
                        a.push(format!("(not {eq})"));
                        if let Verdict::Cex(vals) = chk.must_unsat("line-value", &format!("path {pi} bracket {k} lane {j}: value on the line through the bracketing points"), &a, &all_vars) {
                            let model: BTreeMap<String, Rat> = vals.iter().filter_map(|(k, v)| sx_to_rat(v).map(|r| (k.clone(), r))).collect();
                            let (rep, rec) = replay_linear(cfg, &model);
                            chk.finding(&format!("{prop}:wrong-value:{:?}", cfg.entry), &format!("{}: result is not on the line through the bracketing points (bracket {k}, lane {j})", cfg.name()), rec, rep);
                        }
                        if !canary_done && n >= 3 && k + 2 < n {
                            // wrong oracle: the line through the *next* bracket's points
                            let (xk, q) = (chk.term(s.x[k]), chk.term(s.q));
                            let wrong = line_eq(&mut chk, &s, out[j], k + 1, j);
                            let mut a = pre.clone();
                            a.push(format!("(< {xk} {q})"));
                            let strictly_inside = a.clone();
                            a.push(format!("(not {wrong})"));
                            if matches!(chk.feasible(&strictly_inside), crate::engine::smt::Answer::Sat) {
                                chk.canary(&format!("path {pi}: value claimed to lie on the line of bracket {} instead of {k}", k + 1), &a);
                                canary_done = true;
                            }
                        }
                        if !c01 {
                            continue;
                        }
                        // corollaries, asserted directly
                        let (o, q, xk, yk) = (chk.term(out[j]), chk.term(s.q), chk.term(s.x[k]), chk.term(s.y[k][j]));
                        let mut a = pcs.clone();
                        a.push(format!("(= {q} {xk})"));
                        a.push(format!("(not (= {o} {yk}))"));
                        if let Verdict::Cex(vals) = chk.must_unsat("knot-value", &format!("path {pi} knot {k} lane {j}: data point reproduced"), &a, &all_vars) {
                            let model: BTreeMap<String, Rat> = vals.iter().filter_map(|(k, v)| sx_to_rat(v).map(|r| (k.clone(), r))).collect();
                            let (rep, rec) = replay_linear(cfg, &model);
                            chk.finding(&format!("{prop}:knot-not-reproduced:{:?}", cfg.entry), &format!("{}: data point {k} not reproduced at its axis value (lane {j})", cfg.name()), rec, rep);
                        }
                        if k == n - 2 {
                            let (xl, yl) = (chk.term(s.x[n - 1]), chk.term(s.y[n - 1][j]));
                            let mut a = pcs.clone();
                            a.push(format!("(= {q} {xl})"));
                            a.push(format!("(not (= {o} {yl}))"));
                            if let Verdict::Cex(vals) = chk.must_unsat("knot-value", &format!("path {pi} last knot lane {j}: data point reproduced"), &a, &all_vars) {
                                let model: BTreeMap<String, Rat> = vals.iter().filter_map(|(k, v)| sx_to_rat(v).map(|r| (k.clone(), r))).collect();
                                let (rep, rec) = replay_linear(cfg, &model);
                                chk.finding(&format!("{prop}:knot-not-reproduced:{:?}", cfg.entry), &format!("{}: last data point not reproduced (lane {j})", cfg.name()), rec, rep);
                            }
                        }
                    }
                }
            }
            Ok(Err(e)) | Err(e) => {
                // an in-range query on a valid axis must be answered: the path is feasible (explored with pruning)
                let (ans, vals) = chk.model(&pcs, &all_vars);
                if matches!(ans, crate::engine::smt::Answer::Sat) {
                    let model: BTreeMap<String, Rat> = vals.iter().filter_map(|(k, v)| sx_to_rat(v).map(|r| (k.clone(), r))).collect();
                    let (rep, rec) = replay_linear(cfg, &model);
                    let kind = if matches!(p.result, Err(_)) { "panic" } else { "error" };
                    chk.finding(&format!("{prop}:in-range-query-{kind}:{:?}", cfg.entry), &format!("{}: in-range query not answered: {e}", cfg.name()), rec, rep);
                } else if !matches!(ans, crate::engine::smt::Answer::Unsat) {
                    chk.rep.inconclusive.push(format!("{}: feasibility of a non-Ok path undecided", cfg.name()));
                }
            }
        }
    }
    for (k, c) in covered.iter().enumerate() {
        chk.rep.witnesses_expected += 1;
        if *c {
            chk.rep.witnesses_found += 1;
        } else {
            chk.rep.errors.push(format!("{}: no feasible Ok path for a query strictly inside bracket {k} (vacuous)", cfg.name()));
        }
    }
    chk.rep
}

pub fn configs(args: &Args) -> Vec<Cfg> {
    let thorough = args.thorough();
    let timeout_ms = if thorough { 120_000 } else { 20_000 };
    let mut v = vec![];
    let nmax = if thorough { 12 } else { 6 };
    for n in 2..=nmax {
        for symbolic_axis in [true, false] {
            let mut shapes: Vec<Vec<usize>> = vec![vec![], vec![2]];
            if thorough || n <= 3 {
                shapes.push(vec![2, 2]);
            }
            for trailing in shapes {
                let entries: Vec<Entry> = if trailing.is_empty() { vec![Entry::Scalar, Entry::Interp, Entry::Array1] } else if thorough { vec![Entry::Interp, Entry::Array1, Entry::ArrayDyn] } else { vec![Entry::Interp, Entry::Array1] };
                for entry in entries {
                    if false && !thorough && n == 4 && symbolic_axis && trailing.len() == 1 && entry == Entry::Array1 {
                        continue;
                    }
                    v.push(Cfg { n, trailing: trailing.clone(), symbolic_axis, entry, extrapolate: false, timeout_ms });
                }
            }
        }
    }
    v
}

pub const FUNCTIONS: &[&str] = &[
    "interp1d::Interp1DBuilder::new",
    "interp1d::Interp1DBuilder::x",
    "interp1d::Interp1DBuilder::strategy",
    "interp1d::Interp1DBuilder::build",
    "interp1d::strategies::linear::Linear::interp_into",
    "interp1d::strategies::linear::Linear::calc_frac",
    "interp1d::Interp1D::interp_scalar",
    "interp1d::Interp1D::interp",
    "interp1d::Interp1D::interp_array",
    "interp1d::Interp1D::interp_array_into",
    "interp1d::Interp1D::interp_array_into_1d",
    "interp1d::Interp1D::is_in_range",
    "interp1d::Interp1D::get_index_left_of",
    "interp1d::Interp1D::index_point",
    "vector_extensions::VectorExtensions::get_lower_index",
    "vector_extensions::VectorExtensions::monotonic_prop",
];

pub fn run(args: &Args) -> Report {
    let mut rep = par_run(configs(args), args.threads, check_config);
    crate::validate::validate_linear(args.seed, &mut rep);
    for f in FUNCTIONS {
        rep.functions.insert(f.to_string());
    }
    rep.bounds.push(format!("axis length n = 2..{}; explicit axis fully symbolic (every strictly increasing real axis) and the default index axis; trailing shapes (), (2), (2,2); entry points interp_scalar / interp / interp_array (Ix1 query{})", if args.thorough() { 12 } else { 6 }, if args.thorough() { ", IxDyn query" } else { "" }));
    rep.bounds.push("every data value and the query are solver variables (reals); query constrained to the closed axis range".into());
    rep.outside.push("floating-point rounding (the 'few ulps' clause): layer N, not decided".into());
    rep.outside.push("bracket selection for IEEE inputs (floats adjacent to knots, guess rounding) is decided by C11 (engine K) and C20 (mode O), not here".into());
    rep.outside.push("overflow of y2-y1 or (y2-y1)/(x2-x1) for huge finite data".into());
    rep.assumptions.insert("mode R: float operations read as exact real operations".into());
    rep
}
