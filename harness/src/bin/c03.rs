fn main() {
    let args = vcheck::common::parse_args();
    let t0 = std::time::Instant::now();
    let rep = vcheck::c0203::run("C03", &args);
    vcheck::common::finish(&args, "C03", &rep, t0);
}
