fn main() {
    let args = vcheck::common::parse_args();
    let t0 = std::time::Instant::now();
    let rep = vcheck::c17::run(&args);
    vcheck::common::finish(&args, "C17", &rep, t0);
}
