//! C17, compile-time half: interpolators over thread-safe storage are Send and Sync. If this file stops
//! compiling (for example because a `Cell` / `RefCell` cache was added to an interpolator or a strategy) the
//! driver reports the compiler message as the violation.
use ndarray::{ArcArray, Array, ArrayView, Ix1, Ix2, Ix3, IxDyn, OwnedArcRepr, OwnedRepr, ViewRepr};
use ndarray_interp::interp1d::cubic_spline::CubicSplineStrategy;
use ndarray_interp::interp1d::{Interp1D, Linear};
use ndarray_interp::interp2d::{Bilinear, Interp2D};

fn assert_send_sync<T: Send + Sync>() {}

macro_rules! all_storage {
    ($t:ty, $d:ty) => {
        assert_send_sync::<Interp1D<OwnedRepr<$t>, OwnedRepr<$t>, $d, Linear>>();
        assert_send_sync::<Interp1D<ViewRepr<&'static $t>, ViewRepr<&'static $t>, $d, Linear>>();
        assert_send_sync::<Interp1D<OwnedArcRepr<$t>, OwnedArcRepr<$t>, $d, Linear>>();
        assert_send_sync::<Interp1D<OwnedRepr<$t>, OwnedRepr<$t>, $d, CubicSplineStrategy<OwnedRepr<$t>, $d>>>();
        assert_send_sync::<Interp1D<ViewRepr<&'static $t>, OwnedRepr<$t>, $d, CubicSplineStrategy<ViewRepr<&'static $t>, $d>>>();
        assert_send_sync::<Interp1D<OwnedArcRepr<$t>, OwnedArcRepr<$t>, $d, CubicSplineStrategy<OwnedArcRepr<$t>, $d>>>();
    };
}
macro_rules! all_storage_2d {
    ($t:ty, $d:ty) => {
        assert_send_sync::<Interp2D<OwnedRepr<$t>, OwnedRepr<$t>, OwnedRepr<$t>, $d, Bilinear>>();
        assert_send_sync::<Interp2D<ViewRepr<&'static $t>, ViewRepr<&'static $t>, ViewRepr<&'static $t>, $d, Bilinear>>();
        assert_send_sync::<Interp2D<OwnedArcRepr<$t>, OwnedArcRepr<$t>, OwnedArcRepr<$t>, $d, Bilinear>>();
    };
}

fn main() {
    all_storage!(f64, Ix1);
    all_storage!(f64, Ix3);
    all_storage!(f32, Ix2);
    all_storage!(f64, IxDyn);
    all_storage_2d!(f64, Ix2);
    all_storage_2d!(f32, Ix3);
    all_storage_2d!(f64, IxDyn);
    // the array types themselves (sanity of the assertion helper)
    assert_send_sync::<Array<f64, Ix1>>();
    assert_send_sync::<ArrayView<'static, f64, Ix1>>();
    assert_send_sync::<ArcArray<f64, Ix1>>();
    println!("Send + Sync assertions compiled");
}
