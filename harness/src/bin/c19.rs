fn main() {
    let args = vcheck::common::parse_args();
    let t0 = std::time::Instant::now();
    let rep = vcheck::c19::run(&args);
    vcheck::common::finish(&args, "C19", &rep, t0);
}
