fn main() {
    let args = vcheck::common::parse_args();
    let t0 = std::time::Instant::now();
    let rep = vcheck::c10::run(&args);
    vcheck::common::finish(&args, "C10", &rep, t0);
}
