fn main() {
    let args = vcheck::common::parse_args();
    let t0 = std::time::Instant::now();
    let rep = vcheck::c0203::run("C02", &args);
    vcheck::common::finish(&args, "C02", &rep, t0);
}
