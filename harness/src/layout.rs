//! Arrays holding the same logical contents in different memory layouts (C13/C14/C09): owned C order,
//! owned Fortran order, every-2nd-element window of a larger array whose other cells hold junk, reversed
//! storage, permuted storage axes, window at an offset inside a larger array.
use ndarray::{ArrayD, ArrayViewD, ArrayViewMutD, Axis, IxDyn, ShapeBuilder, Slice};

#[derive(Clone, Copy, Debug, PartialEq, Eq, Hash)]
pub enum Layout {
    C,
    F,
    /// every 2nd element along every axis of a larger array (stride 2), other cells junk
    Strided,
    /// storage reversed along every axis, viewed through negative strides
    Reversed,
    /// storage axes in reversed order (a transposed view of a transposed array)
    Permuted,
    /// a window starting at offset 1 along every axis of a larger array, other cells junk
    Window,
}
impl Layout {
    pub const ALL: [Layout; 6] = [Layout::C, Layout::F, Layout::Strided, Layout::Reversed, Layout::Permuted, Layout::Window];
}

pub struct Holder<T> {
    pub backing: ArrayD<T>,
    pub layout: Layout,
    pub shape: Vec<usize>,
}
fn unravel(mut k: usize, shape: &[usize]) -> Vec<usize> {
    let mut idx = vec![0; shape.len()];
    for d in (0..shape.len()).rev() {
        if shape[d] > 0 {
            idx[d] = k % shape[d];
            k /= shape[d];
        }
    }
    idx
}
impl<T: Clone> Holder<T> {
    /// `logical` in row-major order of `shape`; `junk(i)` produces the filler for cell number i of the backing store
    pub fn new(shape: &[usize], logical: &[T], layout: Layout, mut junk: impl FnMut(usize) -> T) -> Holder<T> {
        let total: usize = shape.iter().product();
        assert_eq!(total, logical.len());
        let nd = shape.len();
        let backing_shape: Vec<usize> = match layout {
            Layout::C | Layout::F | Layout::Reversed => shape.to_vec(),
            Layout::Permuted => shape.iter().rev().copied().collect(),
            Layout::Strided => shape.iter().map(|s| 2 * s + 1).collect(),
            Layout::Window => shape.iter().map(|s| s + 2).collect(),
        };
        let btotal: usize = backing_shape.iter().product();
        let filler: Vec<T> = (0..btotal).map(|i| junk(i)).collect();
        let mut backing = if layout == Layout::F { ArrayD::from_shape_vec(IxDyn(&backing_shape).f(), filler).unwrap() } else { ArrayD::from_shape_vec(IxDyn(&backing_shape), filler).unwrap() };
        for k in 0..total {
            let idx = unravel(k, shape);
            let b: Vec<usize> = match layout {
                Layout::C | Layout::F => idx.clone(),
                Layout::Reversed => idx.iter().zip(shape).map(|(i, s)| s - 1 - i).collect(),
                Layout::Permuted => idx.iter().rev().copied().collect(),
                Layout::Strided => idx.iter().map(|i| 2 * i + 1).collect(),
                Layout::Window => idx.iter().map(|i| i + 1).collect(),
            };
            backing[IxDyn(&b)] = logical[k].clone();
        }
        let _ = nd;
        Holder { backing, layout, shape: shape.to_vec() }
    }
    pub fn view(&self) -> ArrayViewD<'_, T> {
        let mut v = self.backing.view();
        match self.layout {
            Layout::C | Layout::F => {}
            Layout::Reversed => {
                for d in 0..self.shape.len() {
                    v.invert_axis(Axis(d));
                }
            }
            Layout::Permuted => v = v.reversed_axes(),
            Layout::Strided => {
                for d in 0..self.shape.len() {
                    v.slice_axis_inplace(Axis(d), Slice::new(1, None, 2));
                }
            }
            Layout::Window => {
                for d in 0..self.shape.len() {
                    v.slice_axis_inplace(Axis(d), Slice::from(1..1 + self.shape[d]));
                }
            }
        }
        v
    }
    pub fn view_mut(&mut self) -> ArrayViewMutD<'_, T> {
        let shape = self.shape.clone();
        let mut v = self.backing.view_mut();
        match self.layout {
            Layout::C | Layout::F => {}
            Layout::Reversed => {
                for d in 0..shape.len() {
                    v.invert_axis(Axis(d));
                }
            }
            Layout::Permuted => v = v.reversed_axes(),
            Layout::Strided => {
                for d in 0..shape.len() {
                    v.slice_axis_inplace(Axis(d), Slice::new(1, None, 2));
                }
            }
            Layout::Window => {
                for d in 0..shape.len() {
                    v.slice_axis_inplace(Axis(d), Slice::from(1..1 + shape[d]));
                }
            }
        }
        v
    }
    /// logical contents in row-major order
    pub fn logical(&self) -> Vec<T> {
        self.view().iter().cloned().collect()
    }
    /// is backing cell (flat row-major index over the backing shape) inside the logical window?
    pub fn backing_flat(&self) -> Vec<T> {
        // logical (standard) order of the backing array regardless of its memory order
        self.backing.iter().cloned().collect()
    }
    /// an owned array with this layout's strides where that is expressible (C and F); otherwise a C-order copy
    pub fn owned(&self) -> ArrayD<T> {
        match self.layout {
            Layout::C | Layout::F => self.backing.clone(),
            _ => self.view().to_owned(),
        }
    }
}

#[cfg(test)]
mod test {
    use super::*;
    #[test]
    fn layouts_hold_the_same_logical_contents() {
        for shape in [vec![3], vec![2, 3], vec![2, 1, 3], vec![0, 2], vec![]] {
            let total: usize = shape.iter().product();
            let logical: Vec<i64> = (0..total as i64).collect();
            for l in Layout::ALL {
                let mut h = Holder::new(&shape, &logical, l, |i| -1000 - i as i64);
                assert_eq!(h.view().shape(), &shape[..]);
                assert_eq!(h.logical(), logical, "{l:?} {shape:?}");
                assert_eq!(h.view_mut().iter().map(|x| *x).collect::<Vec<_>>(), logical);
            }
        }
    }
}
