//! C13: results do not depend on the memory layout or ownership of any array argument. Mode O, symbolic
//! data: for each role (data, x, y, query, output buffer) the array is stored owned in C or Fortran order, as
//! an every-2nd-element window of a larger array whose other cells hold junk symbols, reversed, with permuted
//! storage axes, or as an offset window; the logical contents are the same symbols. Baseline (all C order)
//! and variant run inside one execution; outcome kind, result shape and every result term must agree.
use crate::api::QRank;
use crate::c09::sym_vals;
use crate::common::Args;
use crate::engine::core::{explore, with_ctx, ExploreCfg, Mode, Sym};
use crate::engine::json::Json;
use crate::engine::report::{par_run, Chk, Report, Verdict};
use crate::entry::{self, Ep, Out, Scen};
use crate::layout::Layout;
use crate::prob::Kind;
use crate::spline::{Bc, End, Row};

#[derive(Clone, Debug)]
struct Item {
    base: Scen,
    variant: Scen,
    role: &'static str,
    eps: Vec<Ep>,
    timeout_ms: u64,
}

fn outcome_kind(r: &Result<Out<Sym>, String>) -> String {
    match r {
        Ok(_) => "Ok".into(),
        Err(e) => e.clone(),
    }
}
fn run_one(s: &Scen, v: &crate::entry::Vals<Sym>, ep: &Ep, tag: &str) -> Result<Result<Out<Sym>, String>, String> {
    // a panic inside one of the two runs must not hide the other: catch it here
    let r = std::panic::catch_unwind(std::panic::AssertUnwindSafe(|| entry::run(s, v, ep, None, None, &mut |i| Sym::var(&format!("poison{tag}{i}")), &mut |p, i| Sym::var(&format!("{p}{tag}{i}")))));
    match r {
        Ok(r) => Ok(r),
        Err(p) => {
            if p.downcast_ref::<crate::engine::core::Abandon>().is_some() {
                std::panic::resume_unwind(p);
            }
            Err(if let Some(s) = p.downcast_ref::<String>() {
                s.clone()
            } else if let Some(s) = p.downcast_ref::<&str>() {
                s.to_string()
            } else {
                "?".into()
            })
        }
    }
}

fn check_item(it: &Item) -> Report {
    with_ctx(|c| c.reset_all());
    with_ctx(|c| c.mode = Mode::O);
    let mut chk = Chk::new(Mode::O, it.timeout_ms);
    chk.begin_config(&format!("role={} :: {}", it.role, it.variant.name()));
    let v = sym_vals(&it.base, false, false);
    let mut ecfg = ExploreCfg::new(Mode::O, it.base.nx().max(it.base.ny()).max(2) - 1);
    ecfg.timeout_ms = it.timeout_ms;
    let (paths, st) = explore(&ecfg, || it.eps.iter().map(|ep| (run_one(&it.base, &v, ep, "A"), run_one(&it.variant, &v, ep, "B"))).collect::<Vec<_>>());
    chk.add_explore_stats(paths.len(), &st);
    let mut n_ok = 0;
    for (pi, p) in paths.iter().enumerate() {
        let pcs = chk.pc(&p.pc);
        let rows = match &p.result {
            Ok(r) => r,
            Err(m) => {
                chk.finding("C13:harness-panic", &format!("{}: {m}", it.variant.name()), Json::obj(), None);
                continue;
            }
        };
        for (ep, (a, b)) in it.eps.iter().zip(rows) {
            let ka = match a {
                Ok(r) => outcome_kind(r),
                Err(m) => format!("panic: {m}"),
            };
            let kb = match b {
                Ok(r) => outcome_kind(r),
                Err(m) => format!("panic: {m}"),
            };
            let class = |k: &str| if k.starts_with("panic") { "panic".to_string() } else { k.to_string() };
            if class(&ka) != class(&kb) {
                // native replay of the outcome difference
                let nv = entry::native_vals(&it.base, 7);
                let (na, nb) = (entry::native_run(&it.base, &nv, ep, None, None), entry::native_run(&it.variant, &nv, ep, None, None));
                let nk = |r: &Result<Out<f64>, String>| r.as_ref().map(|_| "Ok".to_string()).unwrap_or_else(|e| e.clone());
                let rec = Json::obj().with("baseline", it.base.name()).with("variant", it.variant.name()).with("entry_point", ep.name()).with("symbolic_baseline", ka.as_str()).with("symbolic_variant", kb.as_str()).with("native_baseline", nk(&na)).with("native_variant", nk(&nb));
                let qclass = if it.variant.qrank == QRank::Dyn || it.variant.qshape.len() != 1 { "general-path" } else { "fast-path" };
                // reproduced natively: the outcome kinds differ, or both answer with different values (generic values, and the
                // axis / query constants of the symbolic scenario)
                let nv2 = crate::c09::native_from_sym(&v, &Default::default(), 7);
                let values_differ = |nv: &entry::Vals<f64>| match (entry::native_run(&it.base, nv, ep, None, None), entry::native_run(&it.variant, nv, ep, None, None)) {
                    (Ok(x), Ok(y)) => x.shape != y.shape || x.values.iter().zip(&y.values).any(|(p, q)| p.to_bits() != q.to_bits()),
                    (Err(_), Err(_)) => false,
                    _ => true,
                };
                let reproduced = class(&nk(&na)) != class(&nk(&nb)) || values_differ(&nv) || values_differ(&nv2);
                chk.finding(&format!("C13:outcome-depends-on-layout:{}:{}:{qclass}", it.role, ep.name().split('(').next().unwrap()), &format!("{}: {} answers {ka} for C-order arrays but {kb} when the {} is stored as {:?}", it.variant.name(), ep.name(), it.role, layout_of(&it.variant, it.role)), rec, Some(reproduced));
                continue;
            }
            if let (Ok(Ok(oa)), Ok(Ok(ob))) = (a, b) {
                n_ok += 1;
                if oa.shape != ob.shape {
                    chk.finding(&format!("C13:shape-depends-on-layout:{}", it.role), &format!("{}: {} result shape {:?} vs {:?}", it.variant.name(), ep.name(), oa.shape, ob.shape), Json::obj(), None);
                    continue;
                }
                for i in 0..oa.values.len() {
                    if oa.values[i].0 == ob.values[i].0 {
                        chk.trivially_holds("layout-independence");
                        continue;
                    }
                    if chk.rep.findings.iter().any(|f| f.reproduced == Some(true)) {
                        break; // refuted already: skip the remaining element comparisons
                    }
                    let mut q = pcs.clone();
                    q.push(format!("(not (= {} {}))", chk.term(oa.values[i]), chk.term(ob.values[i])));
                    if let Verdict::Cex(_) = chk.must_unsat("layout-independence", &format!("path {pi} {} element {i}", ep.name()), &q, &[]) {
                        let nv = entry::native_vals(&it.base, 7);
                        let (na, nb) = (entry::native_run(&it.base, &nv, ep, None, None), entry::native_run(&it.variant, &nv, ep, None, None));
                        let differs = match (&na, &nb) {
                            (Ok(x), Ok(y)) => x.values.iter().zip(&y.values).any(|(p, q)| p.to_bits() != q.to_bits()),
                            _ => true,
                        };
                        chk.finding(&format!("C13:value-depends-on-layout:{}:{}", it.role, ep.name().split('(').next().unwrap()), &format!("{}: {} element {i} differs when the {} is stored as {:?}", it.variant.name(), ep.name(), it.role, layout_of(&it.variant, it.role)), Json::obj().with("baseline", it.base.name()).with("variant", it.variant.name()).with("native_baseline", format!("{na:?}")).with("native_variant", format!("{nb:?}")), Some(differs));
                    }
                }
            }
        }
    }
    // translator validation: natively at f64 both layouts must give bit-identical values as well
    if chk.rep.findings.is_empty() {
        let nv = entry::native_vals(&it.base, 7);
        for ep in &it.eps {
            let (na, nb) = (entry::native_run(&it.base, &nv, ep, None, None), entry::native_run(&it.variant, &nv, ep, None, None));
            chk.rep.validations += 1;
            let same = match (&na, &nb) {
                (Ok(x), Ok(y)) => x.shape == y.shape && x.values.iter().zip(&y.values).all(|(p, q)| p.to_bits() == q.to_bits()),
                (Err(_), Err(_)) => true,
                _ => false,
            };
            if !same {
                // two native runs of the real crate that differ only in the storage of one argument disagree: that is the
                // violation itself (the symbolic scenario, whose constant queries fold the lookup, did not reach the code)
                chk.finding(&format!("C13:value-depends-on-layout:{}:{}:native-witness", it.role, ep.name().split('(').next().unwrap()), &format!("{}: {} differs natively (generic f64 values) when the {} is stored as {:?}, although the symbolic scenario agrees", it.variant.name(), ep.name(), it.role, layout_of(&it.variant, it.role)), Json::obj().with("baseline", it.base.name()).with("variant", it.variant.name()).with("native_baseline", format!("{na:?}")).with("native_variant", format!("{nb:?}")), Some(true));
            }
        }
    }
    chk.rep.witnesses_expected += 1;
    if n_ok > 0 {
        chk.rep.witnesses_found += 1;
    } else if chk.rep.findings.is_empty() {
        chk.rep.errors.push(format!("{}: no entry point answered in both layouts", it.variant.name()));
    } else {
        chk.rep.witnesses_found += 1;
    }
    chk.rep
}
fn layout_of(s: &Scen, role: &str) -> Layout {
    match role {
        "data" => s.lay_data,
        "x axis" => s.lay_x,
        "y axis" => s.lay_y,
        "query" => s.lay_q,
        _ => s.lay_buf,
    }
}

fn items(args: &Args) -> Vec<Item> {
    let deep = args.thorough();
    let thorough = true; // the former thorough set costs ~2 s and is now the quick tier as well
    let timeout_ms = 20_000;
    let mut v = vec![];
    let variants = [Layout::F, Layout::Strided, Layout::Reversed, Layout::Permuted, Layout::Window];
    let mk = |kind: Kind, shape: Vec<usize>, dynamic: bool, qshape: Vec<usize>, qrank: QRank| Scen { kind, shape, dynamic, extrapolate: true, default_axes: false, lay_data: Layout::C, lay_x: Layout::C, lay_y: Layout::C, lay_q: Layout::C, lay_buf: Layout::C, qshape, qrank };
    let mut scens: Vec<Scen> = vec![];
    let qsets: Vec<(Vec<usize>, QRank)> = if thorough { vec![(vec![], QRank::Static), (vec![3], QRank::Static), (vec![2, 2], QRank::Static), (vec![2, 1, 2], QRank::Static), (vec![3], QRank::Dyn), (vec![2, 2], QRank::Dyn), (vec![], QRank::Dyn)] } else { vec![(vec![], QRank::Static), (vec![3], QRank::Static), (vec![2, 2], QRank::Static), (vec![3], QRank::Dyn)] };
    let two_lanes = Bc::Individual(vec![Row::Mixed(End::D1, End::Nak), Row::Mixed(End::Nat, End::D2)]);
    for (qs, qr) in &qsets {
        scens.push(mk(Kind::Linear, vec![3], false, qs.clone(), *qr));
        scens.push(mk(Kind::Linear, vec![3, 2], false, qs.clone(), *qr));
        scens.push(mk(Kind::Spline(two_lanes.clone()), vec![4, 2], false, qs.clone(), *qr));
        scens.push(mk(Kind::Bilinear, vec![2, 3, 2], false, qs.clone(), *qr));
        if deep {
            scens.push(mk(Kind::Linear, vec![4, 3, 2], false, qs.clone(), *qr));
            scens.push(mk(Kind::Spline(Bc::NotAKnot), vec![5, 2, 3], false, qs.clone(), *qr));
            scens.push(mk(Kind::Bilinear, vec![3, 4, 3, 2], false, qs.clone(), *qr));
        }
        if thorough {
            scens.push(mk(Kind::Linear, vec![3, 2, 1, 2], false, qs.clone(), *qr));
            scens.push(mk(Kind::Spline(Bc::Periodic), vec![4, 1, 2], true, qs.clone(), *qr));
            scens.push(mk(Kind::Bilinear, vec![2, 2], false, qs.clone(), *qr));
            scens.push(mk(Kind::Bilinear, vec![3, 2, 2, 1], true, qs.clone(), *qr));
        }
    }
    // long axes (code paths keyed on the axis length or on contiguity, e.g. a slice-based search)
    for (qs, qr) in [(vec![3], QRank::Static), (vec![2, 2], QRank::Dyn)] {
        scens.push(mk(Kind::Linear, vec![11], false, qs.clone(), qr));
        scens.push(mk(Kind::Spline(Bc::Natural), vec![10, 2], false, qs.clone(), qr));
        scens.push(mk(Kind::Bilinear, vec![10, 3], false, qs.clone(), qr));
        scens.push(mk(Kind::Bilinear, vec![2, 18], false, qs.clone(), qr));
    }
    for (si, s) in scens.iter().enumerate() {
        let scalar_ok = s.trailing().is_empty() && !s.dynamic;
        let nq = s.nq();
        let mut eps = vec![Ep::Array, Ep::ArrayInto];
        if nq > 0 {
            eps.extend([Ep::Interp(0), Ep::InterpInto(nq - 1)]);
            if scalar_ok {
                eps.push(Ep::Scalar(0));
            }
        }
        let roles: Vec<&'static str> = if s.kind.is_2d() { vec!["data", "x axis", "y axis", "query", "buffer"] } else { vec!["data", "x axis", "query", "buffer"] };
        for role in roles {
            for (li, lay) in variants.iter().enumerate() {
                if !thorough && (si + li) % 2 == 1 && role != "buffer" {
                    continue;
                }
                let mut var = s.clone();
                match role {
                    "data" => var.lay_data = *lay,
                    "x axis" => var.lay_x = *lay,
                    "y axis" => var.lay_y = *lay,
                    "query" => var.lay_q = *lay,
                    _ => var.lay_buf = *lay,
                }
                let eps_r: Vec<Ep> = if role == "buffer" { eps.iter().filter(|e| matches!(e, Ep::ArrayInto | Ep::InterpInto(_))).cloned().collect() } else if role == "query" { eps.iter().filter(|e| matches!(e, Ep::Array | Ep::ArrayInto)).cloned().collect() } else { eps.clone() };
                if eps_r.is_empty() {
                    continue;
                }
                v.push(Item { base: s.clone(), variant: var, role, eps: eps_r, timeout_ms });
            }
        }
    }
    v
}

pub fn run(args: &Args) -> Report {
    let mut rep = par_run(items(args), args.threads, check_item);
    crate::validate::validate_linear(args.seed, &mut rep);
    for f in ["interp1d::Interp1D::interp", "interp1d::Interp1D::interp_into", "interp1d::Interp1D::interp_array", "interp1d::Interp1D::interp_array_into", "interp1d::Interp1D::interp_array_into_1d", "interp2d::Interp2D::interp", "interp2d::Interp2D::interp_into", "interp2d::Interp2D::interp_array", "interp2d::Interp2D::interp_array_into", "interp2d::Interp2D::interp_array_into_1d", "interp1d::Interp1D::index_point", "interp2d::Interp2D::index_point", "interp1d::strategies::cubic_spline::CubicSpline::calc_coefficients", "interp1d::strategies::cubic_spline::CubicSpline::solve_for_k_individual"] {
        rep.functions.insert(f.to_string());
    }
    rep.bounds.push(format!("roles data / x / y / query / output buffer, each varied alone against an all-C-order baseline over layouts owned Fortran order, every-2nd-element window (junk symbols elsewhere), reversed storage, permuted storage axes, offset window; Linear (data (3), (3,2){}), CubicSpline with two differently conditioned lanes (4,2), Bilinear (2,3,2); query Ix0, Ix1 x3, Ix2 2x2, IxDyn x3{}; entry points interp_array, interp_array_into, interp, interp_into, interp_scalar", if args.thorough() { ", (3,2,1,2), (4,3,2), spline (5,2,3), Bilinear (3,4,3,2)" } else { ", (3,2,1,2)" }, ", Ix3, IxDyn 2x2 and rank 0; periodic spline over IxDyn data; Bilinear Ix2 and IxDyn data"));
    rep.bounds.push("every data value a symbol; axes and queries distinct exactly representable constants (layout handling does not depend on values)".into());
    rep.outside.push("shared (ArcArray) storage is exercised by C19; layouts of boundary-condition arrays".into());
    rep.assumptions.insert("mode O; equal recorded terms are equal IEEE values".into());
    rep
}
