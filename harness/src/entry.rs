//! Scenario machinery shared by C09 (entry points agree, result shape), C13 (layout independence) and C14
//! (buffers filled exactly or rejected): build the real interpolator over arrays with chosen memory layouts
//! and make one call through a chosen entry point with a chosen query / buffer layout and shape. Generic over
//! the scalar type so the same scenario runs symbolically (Sym) and natively (f64) for replay.
use ndarray::{ArrayD, IxDyn};
use ndarray_interp::interp1d::cubic_spline::SplineNum;

use crate::api::{build_1d, build_2d, err_kind_b, err_kind_i, Dyn1, Dyn2, QRank, Strat1};
use crate::layout::{Holder, Layout};
use crate::prob::Kind;

#[derive(Clone, Debug, PartialEq, Eq, Hash)]
pub struct Scen {
    pub kind: Kind,
    /// full data shape (interpolated axes first)
    pub shape: Vec<usize>,
    pub dynamic: bool,
    pub extrapolate: bool,
    pub default_axes: bool,
    pub lay_data: Layout,
    pub lay_x: Layout,
    pub lay_y: Layout,
    pub lay_q: Layout,
    pub lay_buf: Layout,
    pub qshape: Vec<usize>,
    pub qrank: QRank,
}
impl Scen {
    pub fn name(&self) -> String {
        format!(
            "{} data{:?}{} q{:?}/{:?} extrapolate={}{} layouts[data={:?} x={:?} y={:?} q={:?} buf={:?}]",
            self.kind.name(),
            self.shape,
            if self.dynamic { "(IxDyn)" } else { "" },
            self.qshape,
            self.qrank,
            self.extrapolate,
            if self.default_axes { " default-axes" } else { "" },
            self.lay_data,
            self.lay_x,
            self.lay_y,
            self.lay_q,
            self.lay_buf
        )
    }
    pub fn axes(&self) -> usize {
        if self.kind.is_2d() {
            2
        } else {
            1
        }
    }
    pub fn trailing(&self) -> Vec<usize> {
        self.shape[self.axes()..].to_vec()
    }
    pub fn lanes(&self) -> usize {
        self.trailing().iter().product()
    }
    pub fn nq(&self) -> usize {
        self.qshape.iter().product()
    }
    pub fn result_shape(&self) -> Vec<usize> {
        let mut s = self.qshape.clone();
        s.extend(self.trailing());
        s
    }
    pub fn nx(&self) -> usize {
        self.shape[0]
    }
    pub fn ny(&self) -> usize {
        if self.kind.is_2d() {
            self.shape[1]
        } else {
            0
        }
    }
}

/// the values of a scenario at scalar type T
#[derive(Clone)]
pub struct Vals<T> {
    pub x: Vec<T>,
    pub y: Vec<T>,
    pub data: Vec<T>,
    pub vl: Vec<T>,
    pub vr: Vec<T>,
    pub qx: Vec<T>,
    pub qy: Vec<T>,
    pub zero: T,
}

#[derive(Clone, Debug, PartialEq, Eq, Hash)]
pub enum Ep {
    /// interp_scalar at query element k
    Scalar(usize),
    Interp(usize),
    InterpInto(usize),
    Array,
    ArrayInto,
}
impl Ep {
    pub fn name(&self) -> String {
        match self {
            Ep::Scalar(k) => format!("interp_scalar(q[{k}])"),
            Ep::Interp(k) => format!("interp(q[{k}])"),
            Ep::InterpInto(k) => format!("interp_into(q[{k}])"),
            Ep::Array => "interp_array".into(),
            Ep::ArrayInto => "interp_array_into".into(),
        }
    }
}

/// what a call produced
#[derive(Clone, Debug)]
pub struct Out<T> {
    pub shape: Vec<usize>,
    /// logical contents (row-major) of the returned array / of the caller's buffer window after the call
    pub values: Vec<T>,
    /// for buffer calls: every cell of the backing store (logical order of the backing array) after the call
    pub backing: Vec<T>,
}

pub enum Built<'a, T> {
    D1(Box<dyn Dyn1<T> + 'a>),
    D2(Box<dyn Dyn2<T> + 'a>),
}

pub struct Arrays<T> {
    pub x: Holder<T>,
    pub y: Holder<T>,
    pub data: Holder<T>,
}
pub fn arrays<T: Clone>(s: &Scen, v: &Vals<T>, junk: &mut dyn FnMut(&str, usize) -> T) -> Arrays<T> {
    Arrays {
        x: Holder::new(&[v.x.len()], &v.x, s.lay_x, |i| junk("jx", i)),
        y: Holder::new(&[v.y.len()], &v.y, s.lay_y, |i| junk("jy", i)),
        data: Holder::new(&s.shape, &v.data, s.lay_data, |i| junk("jd", i)),
    }
}
fn strat1<T: Clone>(s: &Scen, v: &Vals<T>) -> Strat1<T> {
    match &s.kind {
        Kind::Spline(bc) => Strat1::Spline { bc: bc.clone(), vl: v.vl.clone(), vr: v.vr.clone(), extrapolate: s.extrapolate },
        _ => Strat1::Linear { extrapolate: s.extrapolate },
    }
}
/// build over *views* of the holders, except that C / F layouts of the data are also handed over as owned arrays
pub fn build<'a, T: SplineNum + 'static>(s: &Scen, v: &Vals<T>, a: &'a Arrays<T>) -> Result<Built<'a, T>, String> {
    let e = |e: ndarray_interp::BuilderError| format!("BuilderError::{}", err_kind_b(&e));
    let x1 = || a.x.view().into_dimensionality::<ndarray::Ix1>().unwrap();
    let y1 = || a.y.view().into_dimensionality::<ndarray::Ix1>().unwrap();
    let owned = matches!(s.lay_data, Layout::C | Layout::F);
    if s.kind.is_2d() {
        let (x, y) = if s.default_axes { (None, None) } else { (Some(x1()), Some(y1())) };
        if owned {
            build_2d(x, y, a.data.owned(), s.extrapolate, s.dynamic).map(Built::D2).map_err(e)
        } else {
            build_2d(x, y, a.data.view(), s.extrapolate, s.dynamic).map(Built::D2).map_err(e)
        }
    } else {
        let x = if s.default_axes { None } else { Some(x1()) };
        if owned {
            build_1d(x, a.data.owned(), &strat1(s, v), s.dynamic).map(Built::D1).map_err(e)
        } else {
            build_1d(x, a.data.view(), &strat1(s, v), s.dynamic).map(Built::D1).map_err(e)
        }
    }
}

/// one call. `buf_shape` overrides the (correct) buffer shape for the *_into entry points; `ys_shape`
/// overrides the shape of the y query array (2-D only); `poison(i)` initialises backing cell i of the buffer
pub fn call<T: SplineNum + 'static>(s: &Scen, v: &Vals<T>, it: &Built<'_, T>, ep: &Ep, buf_shape: Option<&[usize]>, ys_shape: Option<&[usize]>, poison: &mut dyn FnMut(usize) -> T, junk: &mut dyn FnMut(&str, usize) -> T) -> Result<Out<T>, String> {
    let e = |e: ndarray_interp::InterpolateError| format!("InterpolateError::{}", err_kind_i(&e));
    let tr = s.trailing();
    let qx = Holder::new(&s.qshape, &v.qx, s.lay_q, |i| junk("jq", i));
    let ysh = ys_shape.map(|s| s.to_vec()).unwrap_or(s.qshape.clone());
    let qy_vals: Vec<T> = (0..ysh.iter().product::<usize>()).map(|i| v.qy.get(i).copied().unwrap_or(v.zero)).collect();
    let qy = Holder::new(&ysh, &qy_vals, s.lay_q, |i| junk("jr", i));
    let arr_out = |a: ArrayD<T>| Out { shape: a.shape().to_vec(), values: a.iter().copied().collect(), backing: vec![] };
    let mk_buf = |shape: Vec<usize>, poison: &mut dyn FnMut(usize) -> T| {
        let total: usize = shape.iter().product();
        // the logical window is poisoned as well: a cell that is not overwritten stays recognisable
        let mut n = 0usize;
        let logical: Vec<T> = (0..total).map(|_| { n += 1; poison(1_000_000 + n) }).collect();
        Holder::new(&shape, &logical, s.lay_buf, |i| poison(i))
    };
    match (it, ep) {
        (Built::D1(i), Ep::Scalar(k)) => i.interp_scalar(v.qx[*k]).map(|x| Out { shape: vec![], values: vec![x], backing: vec![] }).map_err(e),
        (Built::D1(i), Ep::Interp(k)) => i.interp(v.qx[*k]).map(arr_out).map_err(e),
        (Built::D1(i), Ep::InterpInto(k)) => {
            let mut b = mk_buf(buf_shape.map(|s| s.to_vec()).unwrap_or(tr.clone()), poison);
            i.interp_into(v.qx[*k], b.view_mut()).map_err(e)?;
            Ok(Out { shape: b.shape.clone(), values: b.logical(), backing: b.backing_flat() })
        }
        (Built::D1(i), Ep::Array) => i.interp_array(qx.view(), s.qrank).map(arr_out).map_err(e),
        (Built::D1(i), Ep::ArrayInto) => {
            let mut b = mk_buf(buf_shape.map(|s| s.to_vec()).unwrap_or(s.result_shape()), poison);
            i.interp_array_into(qx.view(), s.qrank, b.view_mut()).map_err(e)?;
            Ok(Out { shape: b.shape.clone(), values: b.logical(), backing: b.backing_flat() })
        }
        (Built::D2(i), Ep::Scalar(k)) => i.interp_scalar(v.qx[*k], v.qy[*k]).map(|x| Out { shape: vec![], values: vec![x], backing: vec![] }).map_err(e),
        (Built::D2(i), Ep::Interp(k)) => i.interp(v.qx[*k], v.qy[*k]).map(arr_out).map_err(e),
        (Built::D2(i), Ep::InterpInto(k)) => {
            let mut b = mk_buf(buf_shape.map(|s| s.to_vec()).unwrap_or(tr.clone()), poison);
            i.interp_into(v.qx[*k], v.qy[*k], b.view_mut()).map_err(e)?;
            Ok(Out { shape: b.shape.clone(), values: b.logical(), backing: b.backing_flat() })
        }
        (Built::D2(i), Ep::Array) => i.interp_array(qx.view(), qy.view(), s.qrank).map(arr_out).map_err(e),
        (Built::D2(i), Ep::ArrayInto) => {
            let mut b = mk_buf(buf_shape.map(|s| s.to_vec()).unwrap_or(s.result_shape()), poison);
            i.interp_array_into(qx.view(), qy.view(), s.qrank, b.view_mut()).map_err(e)?;
            Ok(Out { shape: b.shape.clone(), values: b.logical(), backing: b.backing_flat() })
        }
    }
}

/// build + one call
pub fn run<T: SplineNum + 'static>(s: &Scen, v: &Vals<T>, ep: &Ep, buf_shape: Option<&[usize]>, ys_shape: Option<&[usize]>, poison: &mut dyn FnMut(usize) -> T, junk: &mut dyn FnMut(&str, usize) -> T) -> Result<Out<T>, String> {
    let a = arrays(s, v, junk);
    let it = build(s, v, &a)?;
    call(s, v, &it, ep, buf_shape, ys_shape, poison, junk)
}

/// native f64 values for a scenario (deterministic, generic: no ties, no special values)
pub fn native_vals(s: &Scen, seed: u64) -> Vals<f64> {
    let mut r = crate::common::Rng::new(seed ^ 0xfeed);
    let (nx, ny) = (s.nx(), s.ny());
    let axis = |n: usize, r: &mut crate::common::Rng| {
        let mut v = vec![0.0f64];
        for _ in 1..n {
            let l = *v.last().unwrap();
            v.push(l + if s.default_axes { 1.0 } else { r.f64_in(0.5, 2.0) });
        }
        v
    };
    let x = axis(nx.max(1), &mut r);
    let y = axis(ny.max(1), &mut r);
    let total: usize = s.shape.iter().product();
    let lanes = s.lanes();
    let mut data: Vec<f64> = (0..total).map(|_| r.f64_in(-5.0, 5.0)).collect();
    if let Kind::Spline(crate::spline::Bc::Periodic) = s.kind {
        for j in 0..lanes {
            data[(nx - 1) * lanes + j] = data[j];
        }
    }
    let nq = s.nq();
    let (xl, xh) = (x[0], *x.last().unwrap());
    let (yl, yh) = (y[0], *y.last().unwrap());
    Vals { x, y, data, vl: (0..lanes).map(|_| r.f64_in(-1.0, 1.0)).collect(), vr: (0..lanes).map(|_| r.f64_in(-1.0, 1.0)).collect(), qx: (0..nq).map(|_| r.f64_in(xl, xh)).collect(), qy: (0..nq).map(|_| r.f64_in(yl, yh)).collect(), zero: 0.0 }
}
pub fn native_run(s: &Scen, v: &Vals<f64>, ep: &Ep, buf_shape: Option<&[usize]>, ys_shape: Option<&[usize]>) -> Result<Out<f64>, String> {
    crate::engine::core::silence_panics();
    let r = std::panic::catch_unwind(std::panic::AssertUnwindSafe(|| run(s, v, ep, buf_shape, ys_shape, &mut |i| -7.0e9 - i as f64, &mut |_, i| 9.0e9 + i as f64)));
    match r {
        Ok(r) => r,
        Err(p) => Err(format!(
            "panic: {}",
            if let Some(s) = p.downcast_ref::<String>() {
                s.clone()
            } else if let Some(s) = p.downcast_ref::<&str>() {
                s.to_string()
            } else {
                "?".into()
            }
        )),
    }
}
pub fn ixdyn(shape: &[usize]) -> IxDyn {
    IxDyn(shape)
}
