//! minimal JSON value + writer (no external crates)
use std::collections::BTreeMap;
use std::fmt;

#[derive(Clone, Debug, PartialEq)]
pub enum Json {
    Null,
    Bool(bool),
    Int(i64),
    Num(f64),
    Str(String),
    Arr(Vec<Json>),
    Obj(BTreeMap<String, Json>),
}
impl Json {
    pub fn obj() -> Json {
        Json::Obj(BTreeMap::new())
    }
    pub fn set(&mut self, k: &str, v: impl Into<Json>) -> &mut Json {
        if let Json::Obj(m) = self {
            m.insert(k.to_string(), v.into());
        }
        self
    }
    pub fn with(mut self, k: &str, v: impl Into<Json>) -> Json {
        self.set(k, v);
        self
    }
}
impl From<&str> for Json {
    fn from(s: &str) -> Json {
        Json::Str(s.to_string())
    }
}
impl From<String> for Json {
    fn from(s: String) -> Json {
        Json::Str(s)
    }
}
impl From<&String> for Json {
    fn from(s: &String) -> Json {
        Json::Str(s.clone())
    }
}
impl From<bool> for Json {
    fn from(b: bool) -> Json {
        Json::Bool(b)
    }
}
impl From<i64> for Json {
    fn from(i: i64) -> Json {
        Json::Int(i)
    }
}
impl From<u64> for Json {
    fn from(i: u64) -> Json {
        Json::Int(i as i64)
    }
}
impl From<usize> for Json {
    fn from(i: usize) -> Json {
        Json::Int(i as i64)
    }
}
impl From<i32> for Json {
    fn from(i: i32) -> Json {
        Json::Int(i as i64)
    }
}
impl From<f64> for Json {
    fn from(f: f64) -> Json {
        Json::Num(f)
    }
}
impl<T: Into<Json>> From<Vec<T>> for Json {
    fn from(v: Vec<T>) -> Json {
        Json::Arr(v.into_iter().map(|x| x.into()).collect())
    }
}
fn esc(s: &str, f: &mut fmt::Formatter<'_>) -> fmt::Result {
    write!(f, "\"")?;
    for c in s.chars() {
        match c {
            '"' => write!(f, "\\\"")?,
            '\\' => write!(f, "\\\\")?,
            '\n' => write!(f, "\\n")?,
            '\t' => write!(f, "\\t")?,
            '\r' => write!(f, "\\r")?,
            c if (c as u32) < 0x20 => write!(f, "\\u{:04x}", c as u32)?,
            c => write!(f, "{c}")?,
        }
    }
    write!(f, "\"")
}
impl fmt::Display for Json {
    fn fmt(&self, f: &mut fmt::Formatter<'_>) -> fmt::Result {
        match self {
            Json::Null => write!(f, "null"),
            Json::Bool(b) => write!(f, "{b}"),
            Json::Int(i) => write!(f, "{i}"),
            Json::Num(n) => {
                if n.is_finite() {
                    write!(f, "{n}")
                } else {
                    write!(f, "\"{n}\"")
                }
            }
            Json::Str(s) => esc(s, f),
            Json::Arr(v) => {
                write!(f, "[")?;
                for (i, x) in v.iter().enumerate() {
                    if i > 0 {
                        write!(f, ",")?;
                    }
                    write!(f, "{x}")?;
                }
                write!(f, "]")
            }
            Json::Obj(m) => {
                write!(f, "{{")?;
                for (i, (k, v)) in m.iter().enumerate() {
                    if i > 0 {
                        write!(f, ",")?;
                    }
                    esc(k, f)?;
                    write!(f, ":{v}")?;
                }
                write!(f, "}}")
            }
        }
    }
}
