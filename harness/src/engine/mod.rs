pub mod calc;
pub mod core;
pub mod json;
pub mod report;
pub mod smt;
