//! Symbolic calculus on recorded terms (mode R): substitution, differentiation, variable renaming.
use std::collections::HashMap;

use super::core::{with_ctx, Cond, Lit, Node, Op, Sym};

fn node(t: Sym) -> Node {
    with_ctx(|c| c.node(t.0).clone())
}

/// d t / d v  (v must be a variable node); rational-function calculus
pub fn diff(t: Sym, v: Sym) -> Sym {
    fn go(t: Sym, v: Sym, memo: &mut HashMap<u32, Sym>) -> Sym {
        if let Some(r) = memo.get(&t.0) {
            return *r;
        }
        let r = match node(t) {
            Node::Var(_) => {
                if t.0 == v.0 {
                    Sym::int(1)
                } else {
                    Sym::int(0)
                }
            }
            Node::Const(_) | Node::FConst(_) => Sym::int(0),
            Node::Neg(a) => -go(Sym(a), v, memo),
            Node::Bin(op, a, b) => {
                let (a, b) = (Sym(a), Sym(b));
                let (da, db) = (go(a, v, memo), go(b, v, memo));
                match op {
                    Op::Add => da + db,
                    Op::Sub => da - db,
                    Op::Mul => da * b + a * db,
                    Op::Div => (da * b - a * db) / (b * b),
                    _ => panic!("diff: unsupported operator {op:?}"),
                }
            }
        };
        memo.insert(t.0, r);
        r
    }
    go(t, v, &mut HashMap::new())
}
pub fn diff_n(t: Sym, v: Sym, n: usize) -> Sym {
    (0..n).fold(t, |t, _| diff(t, v))
}
/// t[v := by]
pub fn subst(t: Sym, v: Sym, by: Sym) -> Sym {
    subst_many(t, &[(v, by)])
}
pub fn subst_many(t: Sym, map: &[(Sym, Sym)]) -> Sym {
    fn go(t: Sym, map: &[(Sym, Sym)], memo: &mut HashMap<u32, Sym>) -> Sym {
        if let Some((_, by)) = map.iter().find(|(v, _)| v.0 == t.0) {
            return *by;
        }
        if let Some(r) = memo.get(&t.0) {
            return *r;
        }
        let r = match node(t) {
            Node::Var(_) | Node::Const(_) | Node::FConst(_) => t,
            Node::Neg(a) => -go(Sym(a), map, memo),
            Node::Bin(op, a, b) => {
                let (a, b) = (go(Sym(a), map, memo), go(Sym(b), map, memo));
                with_ctx(|c| Sym(c.bin(op, a.0, b.0)))
            }
        };
        memo.insert(t.0, r);
        r
    }
    go(t, map, &mut HashMap::new())
}
/// rename every variable `name` to `name+suffix` unless `shared(name)`
pub fn rename(t: Sym, suffix: &str, shared: &dyn Fn(&str) -> bool) -> Sym {
    fn go(t: Sym, suffix: &str, shared: &dyn Fn(&str) -> bool, memo: &mut HashMap<u32, Sym>) -> Sym {
        if let Some(r) = memo.get(&t.0) {
            return *r;
        }
        let r = match node(t) {
            Node::Var(i) => {
                let nm = with_ctx(|c| c.var_names[i as usize].clone());
                if shared(&nm) {
                    t
                } else {
                    Sym::var(&format!("{nm}{suffix}"))
                }
            }
            Node::Const(_) | Node::FConst(_) => t,
            Node::Neg(a) => -go(Sym(a), suffix, shared, memo),
            Node::Bin(op, a, b) => {
                let (a, b) = (go(Sym(a), suffix, shared, memo), go(Sym(b), suffix, shared, memo));
                with_ctx(|c| Sym(c.bin(op, a.0, b.0)))
            }
        };
        memo.insert(t.0, r);
        r
    }
    go(t, suffix, shared, &mut HashMap::new())
}
pub fn rename_lit(l: &Lit, suffix: &str, shared: &dyn Fn(&str) -> bool) -> Lit {
    let cond = match &l.cond {
        Cond::Cmp(k, a, b) => Cond::Cmp(*k, rename(Sym(*a), suffix, shared).0, rename(Sym(*b), suffix, shared).0),
        Cond::ToUsize(t, k) => Cond::ToUsize(rename(Sym(*t), suffix, shared).0, *k),
        Cond::ToUsizeBig(t, k) => Cond::ToUsizeBig(rename(Sym(*t), suffix, shared).0, *k),
        Cond::Bool(b) => Cond::Bool(*b),
    };
    Lit { cond, val: l.val, assumed: l.assumed }
}
/// the set of variable names a path-condition literal depends on
pub fn lit_vars(l: &Lit) -> Vec<String> {
    match &l.cond {
        Cond::Cmp(_, a, b) => {
            let mut v = vars_of(Sym(*a));
            v.extend(vars_of(Sym(*b)));
            v.sort();
            v.dedup();
            v
        }
        Cond::ToUsize(t, _) | Cond::ToUsizeBig(t, _) => vars_of(Sym(*t)),
        Cond::Bool(_) => vec![],
    }
}
/// the set of variable names a term depends on
pub fn vars_of(t: Sym) -> Vec<String> {
    let mut seen = std::collections::HashSet::new();
    let mut out = std::collections::BTreeSet::new();
    let mut stack = vec![t.0];
    while let Some(n) = stack.pop() {
        if !seen.insert(n) {
            continue;
        }
        match with_ctx(|c| c.node(n).clone()) {
            Node::Var(i) => {
                out.insert(with_ctx(|c| c.var_names[i as usize].clone()));
            }
            Node::Const(_) | Node::FConst(_) => {}
            Node::Neg(a) => stack.push(a),
            Node::Bin(_, a, b) => {
                stack.push(a);
                stack.push(b);
            }
        }
    }
    out.into_iter().collect()
}
/// number of operation nodes per operator in the DAG of `t` (evidence: float op counts)
pub fn op_census(t: Sym) -> Vec<(String, usize)> {
    let mut seen = std::collections::HashSet::new();
    let mut cnt: std::collections::BTreeMap<String, usize> = Default::default();
    let mut stack = vec![t.0];
    while let Some(n) = stack.pop() {
        if !seen.insert(n) {
            continue;
        }
        match with_ctx(|c| c.node(n).clone()) {
            Node::Var(_) | Node::Const(_) | Node::FConst(_) => {}
            Node::Neg(a) => {
                *cnt.entry("neg".into()).or_default() += 1;
                stack.push(a)
            }
            Node::Bin(op, a, b) => {
                *cnt.entry(format!("{op:?}").to_lowercase()).or_default() += 1;
                stack.push(a);
                stack.push(b);
            }
        }
    }
    cnt.into_iter().collect()
}
