//! Per-run bookkeeping: obligations asked / discharged, witnesses, canaries, findings, samples; merged over
//! worker threads and written as JSON for the `check` driver.
use std::collections::{BTreeMap, BTreeSet};
use std::sync::Mutex;
use std::time::Instant;

use super::core::{with_ctx, Ctx, Lit, Mode};
use super::json::Json;
use super::smt::{Answer, Session};

#[derive(Clone, Debug)]
pub struct Finding {
    /// stable key: (entry point / configuration class / defect class), used by the known-findings file
    pub key: String,
    pub summary: String,
    pub replay: Json,
    /// Some(true): reproduced against the real crate; Some(false): did not reproduce; None: not replayed
    pub reproduced: Option<bool>,
}

#[derive(Clone, Debug, Default)]
pub struct Report {
    pub configs: u64,
    pub paths: u64,
    pub feasible_paths: u64,
    pub abandoned_paths: u64,
    pub decisions: u64,
    pub prune_queries: u64,
    pub obligations: u64,
    pub discharged: u64,
    /// obligations whose two sides were the same hash-consed node (no solver reasoning needed)
    pub trivial: u64,
    pub nontrivial_keys: BTreeSet<String>,
    /// distinct (configuration, obligation kind) pairs discharged by term identity
    pub syntactic_keys: BTreeSet<String>,
    pub witnesses_expected: u64,
    pub witnesses_found: u64,
    pub canaries_expected: u64,
    pub canaries_fired: u64,
    pub cut_by_assumption: BTreeMap<String, u64>,
    pub solver_ms: u64,
    pub solver_queries: u64,
    pub replays: u64,
    pub validations: u64,
    pub kinds: BTreeMap<String, u64>,
    pub samples: Vec<Json>,
    pub assumptions: BTreeSet<String>,
    pub functions: BTreeSet<String>,
    pub bounds: Vec<String>,
    pub outside: Vec<String>,
    pub inconclusive: Vec<String>,
    pub errors: Vec<String>,
    pub findings: Vec<Finding>,
    pub notes: Vec<String>,
    pub config_names: Vec<String>,
}
impl Report {
    pub fn merge(&mut self, o: Report) {
        self.configs += o.configs;
        self.paths += o.paths;
        self.feasible_paths += o.feasible_paths;
        self.abandoned_paths += o.abandoned_paths;
        self.decisions += o.decisions;
        self.prune_queries += o.prune_queries;
        self.obligations += o.obligations;
        self.discharged += o.discharged;
        self.trivial += o.trivial;
        self.nontrivial_keys.extend(o.nontrivial_keys);
        self.syntactic_keys.extend(o.syntactic_keys);
        self.witnesses_expected += o.witnesses_expected;
        self.witnesses_found += o.witnesses_found;
        self.canaries_expected += o.canaries_expected;
        self.canaries_fired += o.canaries_fired;
        for (k, v) in o.cut_by_assumption {
            *self.cut_by_assumption.entry(k).or_default() += v;
        }
        self.solver_ms += o.solver_ms;
        self.solver_queries += o.solver_queries;
        self.replays += o.replays;
        self.validations += o.validations;
        for (k, v) in o.kinds {
            *self.kinds.entry(k).or_default() += v;
        }
        for s in o.samples {
            if self.samples.len() < 12 {
                self.samples.push(s);
            }
        }
        self.assumptions.extend(o.assumptions);
        self.functions.extend(o.functions);
        for b in o.bounds {
            if !self.bounds.contains(&b) {
                self.bounds.push(b);
            }
        }
        for b in o.outside {
            if !self.outside.contains(&b) {
                self.outside.push(b);
            }
        }
        self.inconclusive.extend(o.inconclusive);
        self.errors.extend(o.errors);
        for f in o.findings {
            if self.findings.iter().any(|g| g.key == f.key) {
                *self.kinds.entry(format!("further witnesses of finding {}", f.key)).or_default() += 1;
            } else {
                self.findings.push(f);
            }
        }
        for n in o.notes {
            if !self.notes.contains(&n) {
                self.notes.push(n);
            }
        }
        self.config_names.extend(o.config_names);
    }
    pub fn to_json(&self) -> Json {
        let mut j = Json::obj();
        j.set("configs", self.configs);
        j.set("paths", self.paths);
        j.set("feasible_paths", self.feasible_paths);
        j.set("abandoned_paths", self.abandoned_paths);
        j.set("decisions", self.decisions);
        j.set("prune_queries", self.prune_queries);
        j.set("obligations", self.obligations);
        j.set("discharged", self.discharged);
        j.set("trivial", self.trivial);
        j.set("nontrivial", self.nontrivial_keys.len());
        j.set("term_identity_cases", self.syntactic_keys.len());
        j.set("witnesses_expected", self.witnesses_expected);
        j.set("witnesses_found", self.witnesses_found);
        j.set("canaries_expected", self.canaries_expected);
        j.set("canaries_fired", self.canaries_fired);
        let mut cut = Json::obj();
        for (k, v) in &self.cut_by_assumption {
            cut.set(k, *v);
        }
        j.set("cut_by_assumption", cut);
        j.set("solver_ms", self.solver_ms);
        j.set("solver_queries", self.solver_queries);
        j.set("replays", self.replays);
        j.set("validations", self.validations);
        let mut kinds = Json::obj();
        for (k, v) in &self.kinds {
            kinds.set(k, *v);
        }
        j.set("obligation_kinds", kinds);
        j.set("samples", Json::Arr(self.samples.clone()));
        j.set("assumptions", self.assumptions.iter().cloned().collect::<Vec<_>>());
        j.set("functions", self.functions.iter().cloned().collect::<Vec<_>>());
        j.set("bounds", self.bounds.clone());
        j.set("outside", self.outside.clone());
        j.set("inconclusive", self.inconclusive.clone());
        j.set("errors", self.errors.clone());
        j.set("notes", self.notes.clone());
        let n = self.config_names.len();
        let mut names = self.config_names.clone();
        names.truncate(400);
        j.set("config_names", names);
        j.set("config_names_total", n);
        j.set(
            "findings",
            Json::Arr(
                self.findings
                    .iter()
                    .map(|f| {
                        Json::obj().with("key", &f.key).with("summary", &f.summary).with("replay", f.replay.clone()).with(
                            "reproduced",
                            match f.reproduced {
                                Some(b) => Json::Bool(b),
                                None => Json::Null,
                            },
                        )
                    })
                    .collect(),
            ),
        );
        j
    }
}

/// what an obligation came back with
#[derive(Clone, Debug)]
pub enum Verdict {
    Holds,
    /// counterexample: (name, raw value) pairs for the requested terms
    Cex(Vec<(String, String)>),
    Inconclusive(String),
}

/// A worker's solver session plus its local report.
/// process-wide number of IEEE refinements left (each one is a bit-precise query of up to `ieee_timeout_ms` in a fresh
/// solver process; on a tree that breaks a property thousands of abstract counterexamples can arise, a few confirmed
/// ones are all that is needed)
pub static IEEE_LEFT: std::sync::atomic::AtomicI64 = std::sync::atomic::AtomicI64::new(48);

pub struct Chk {
    pub rep: Report,
    pub sess: Session,
    pub cfg_name: String,
    pub max_samples_per_kind: usize,
    /// every n-th obligation is also sent to z3-new and cvc5 (0 = never)
    pub cross_every: u64,
    /// ask the other installed solvers when the primary one answers unknown
    pub fallbacks: bool,
    /// mode O: re-decide an abstract counterexample with IEEE-754 semantics for + - * / (see Session::ieee_refine)
    pub ieee_refine: bool,
    pub ieee_timeout_ms: u64,
    /// refinements left for this configuration (each is a bit-precise query in a fresh solver process)
    pub ieee_left: u32,
    sampled: BTreeMap<String, usize>,
}
impl Chk {
    pub fn new(mode: Mode, timeout_ms: u64) -> Chk {
        Chk { rep: Report::default(), sess: Session::new(mode, timeout_ms), cfg_name: String::new(), max_samples_per_kind: 1, cross_every: 97, fallbacks: true, ieee_refine: true, ieee_timeout_ms: 10_000, ieee_left: 3, sampled: BTreeMap::new() }
    }
    pub fn new_with_solver(mode: Mode, timeout_ms: u64, solver: &str) -> Chk {
        Chk::with_session(Session::with_solver(mode, timeout_ms, solver, (11, 53)))
    }
    pub fn with_session(sess: Session) -> Chk {
        Chk { rep: Report::default(), sess, cfg_name: String::new(), max_samples_per_kind: 1, cross_every: 97, fallbacks: true, ieee_refine: true, ieee_timeout_ms: 10_000, ieee_left: 3, sampled: BTreeMap::new() }
    }
    pub fn begin_config(&mut self, name: &str) {
        self.cfg_name = name.to_string();
        self.rep.configs += 1;
        self.rep.config_names.push(name.to_string());
    }
    pub fn term(&mut self, t: super::core::Sym) -> String {
        with_ctx(|c| self.sess.term(c, t.0))
    }
    pub fn pc(&mut self, pc: &[Lit]) -> Vec<String> {
        with_ctx(|c| self.sess.pc(c, pc))
    }
    fn ask(&mut self, asserts: &[String], get: &[String]) -> (Answer, Vec<(String, String)>) {
        let t0 = Instant::now();
        let r = self.sess.check_with(asserts, get);
        if t0.elapsed().as_millis() > 1500 && std::env::var("VERIF_DEBUG").is_ok() {
            if std::env::var("VERIF_DUMP_SMT").is_ok() {
                let _ = std::fs::write(format!("/tmp/verif-slow-{}.smt2", self.rep.solver_queries), self.sess.standalone_last());
            }
            eprintln!("slow query {:.1}s -> {:?} :: {} :: {}", t0.elapsed().as_secs_f64(), r.0, self.cfg_name, asserts.last().map(|s| s.chars().take(200).collect::<String>()).unwrap_or_default());
        }
        self.rep.solver_ms += t0.elapsed().as_millis() as u64;
        self.rep.solver_queries += 1;
        r
    }
    fn sample(&mut self, kind: &str, name: &str, expect: &str, got: &str) {
        let n = self.sampled.entry(kind.to_string()).or_default();
        if *n < self.max_samples_per_kind && self.rep.samples.len() < 12 {
            *n += 1;
            let mut q = self.sess.last_query.clone();
            if q.len() > 1800 {
                q.truncate(1800);
                q += " ...[truncated]";
            }
            self.rep.samples.push(Json::obj().with("config", &self.cfg_name).with("obligation", name).with("kind", kind).with("expected", expect).with("answer", got).with("smt_query", q));
        }
    }
    /// obligation: the conjunction must be unsatisfiable. `kind` groups obligations for counting.
    pub fn must_unsat(&mut self, kind: &str, name: &str, asserts: &[String], get: &[String]) -> Verdict {
        self.rep.obligations += 1;
        *self.rep.kinds.entry(kind.to_string()).or_default() += 1;
        let (mut a, vals) = self.ask(asserts, get);
        if let (Answer::Unknown(_), true) = (&a, self.fallbacks) {
            // the primary solver gave up: ask the other installed solvers in fresh processes; only a definite
            // `unsat` is accepted from them (a `sat` needs a model from the primary encoding to be replayed)
            for alt in ["z3-new", "cvc5", "z3"] {
                let t0 = Instant::now();
                let r = self.sess.second_opinion(alt, self.sess.timeout_ms);
                self.rep.solver_ms += t0.elapsed().as_millis() as u64;
                *self.rep.kinds.entry(format!("fallback to {alt} after unknown")).or_default() += 1;
                if r == Answer::Unsat {
                    a = r;
                    break;
                }
            }
        } else if self.cross_every > 0 && self.rep.obligations % self.cross_every == 0 && std::env::var("VERIF_NO_CROSS").is_err() {
            // solver cross-check on a sample of the obligations
            for alt in ["z3-new", "cvc5"] {
                let r = self.sess.second_opinion(alt, self.sess.timeout_ms.min(5_000));
                *self.rep.kinds.entry(format!("cross-checked with {alt}")).or_default() += 1;
                match (&a, &r) {
                    (Answer::Unsat, Answer::Sat) | (Answer::Sat, Answer::Unsat) => self.rep.errors.push(format!("{} / {}: solvers disagree: z3 {:?} vs {alt} {:?}", self.cfg_name, name, a, r)),
                    (_, Answer::Unknown(_)) => *self.rep.kinds.entry(format!("cross-check {alt} gave no verdict")).or_default() += 1,
                    _ => {}
                }
            }
        }
        match a {
            Answer::Unsat => {
                self.rep.discharged += 1;
                self.rep.nontrivial_keys.insert(format!("{}|{}", self.cfg_name, name));
                self.sample(kind, name, "unsat", "unsat");
                Verdict::Holds
            }
            Answer::Sat => {
                self.sample(kind, name, "unsat", "sat");
                if self.sess.mode == Mode::O && self.ieee_refine && !self.sess.ieee && self.ieee_left > 0 && IEEE_LEFT.fetch_sub(1, std::sync::atomic::Ordering::SeqCst) > 0 {
                    self.ieee_left -= 1;
                    // the abstraction (uninterpreted arithmetic) admits a counterexample: decide the same query with
                    // IEEE-754 semantics for + - * /; unsat = an artefact of the abstraction, sat = a model of real
                    // doubles that the caller replays natively
                    let t0 = Instant::now();
                    let (r, rvals) = self.sess.ieee_refine(asserts, get, self.ieee_timeout_ms);
                    self.rep.solver_ms += t0.elapsed().as_millis() as u64;
                    match r {
                        Answer::Unsat => {
                            *self.rep.kinds.entry("abstract counterexample refuted by the IEEE refinement".into()).or_default() += 1;
                            self.rep.discharged += 1;
                            self.rep.nontrivial_keys.insert(format!("{}|{}", self.cfg_name, name));
                            return Verdict::Holds;
                        }
                        Answer::Sat => {
                            *self.rep.kinds.entry("abstract counterexample confirmed by the IEEE refinement".into()).or_default() += 1;
                            return Verdict::Cex(if get.is_empty() { vals } else { rvals });
                        }
                        Answer::Unknown(_) => {
                            *self.rep.kinds.entry("IEEE refinement gave no verdict (abstract counterexample kept)".into()).or_default() += 1;
                        }
                    }
                }
                Verdict::Cex(vals)
            }
            Answer::Unknown(why) => {
                self.rep.inconclusive.push(format!("{} / {}: {}", self.cfg_name, name, why));
                Verdict::Inconclusive(why)
            }
        }
    }
    /// an obligation discharged without the solver because both sides are the same hash-consed node
    pub fn trivially_holds(&mut self, kind: &str) {
        if self.rep.syntactic_keys.insert(format!("{}|{kind}", self.cfg_name)) {
            let n = self.sampled.entry(format!("{kind} (term identity)")).or_default();
            if *n < 1 && self.rep.samples.len() < 12 {
                *n += 1;
                self.rep.samples.push(Json::obj().with("config", &self.cfg_name).with("obligation", kind).with("kind", kind).with("decided_by", "term identity: both sides are the same hash-consed term (the same operations on the same symbolic operands), no solver query needed"));
            }
        }
        self.rep.obligations += 1;
        self.rep.discharged += 1;
        self.rep.trivial += 1;
        *self.rep.kinds.entry(format!("{kind} (same node)")).or_default() += 1;
    }
    /// vacuity guard: the conjunction must be satisfiable
    pub fn witness(&mut self, name: &str, asserts: &[String]) -> bool {
        self.rep.witnesses_expected += 1;
        let (a, _) = self.ask(asserts, &[]);
        match a {
            Answer::Sat => {
                self.rep.witnesses_found += 1;
                self.sample("witness", name, "sat", "sat");
                true
            }
            Answer::Unsat => {
                self.rep.errors.push(format!("{} / witness {name}: unsat (vacuous harness)", self.cfg_name));
                false
            }
            Answer::Unknown(w) => {
                self.rep.inconclusive.push(format!("{} / witness {name}: {w}", self.cfg_name));
                false
            }
        }
    }
    /// canary: a deliberately wrong oracle must be refuted (sat)
    pub fn canary(&mut self, name: &str, asserts: &[String]) -> bool {
        self.rep.canaries_expected += 1;
        let (a, _) = self.ask(asserts, &[]);
        match a {
            Answer::Sat => {
                self.rep.canaries_fired += 1;
                self.sample("canary", name, "sat", "sat");
                true
            }
            Answer::Unsat => {
                self.rep.errors.push(format!("{} / canary {name}: wrong oracle was NOT refuted (harness does not reach the code?)", self.cfg_name));
                false
            }
            Answer::Unknown(w) => {
                self.rep.inconclusive.push(format!("{} / canary {name}: {w}", self.cfg_name));
                false
            }
        }
    }
    /// plain satisfiability question (feasibility filters); not counted as an obligation
    pub fn feasible(&mut self, asserts: &[String]) -> Answer {
        self.ask(asserts, &[]).0
    }
    pub fn model(&mut self, asserts: &[String], get: &[String]) -> (Answer, Vec<(String, String)>) {
        self.ask(asserts, get)
    }
    pub fn finding(&mut self, key: &str, summary: &str, replay: Json, reproduced: Option<bool>) {
        self.rep.replays += 1;
        if self.rep.findings.iter().any(|f| f.key == key) {
            // keep the first witness per key, count the rest
            *self.rep.kinds.entry(format!("further witnesses of finding {key}")).or_default() += 1;
            return;
        }
        self.rep.findings.push(Finding { key: key.into(), summary: summary.into(), replay, reproduced });
    }
    pub fn add_explore_stats(&mut self, paths: usize, st: &super::core::ExploreStats) {
        self.rep.paths += paths as u64 + st.abandoned;
        self.rep.feasible_paths += paths as u64;
        self.rep.abandoned_paths += st.abandoned;
        self.rep.decisions += st.decisions;
        self.rep.prune_queries += st.prune_queries;
        if st.truncated {
            self.rep.errors.push(format!("{}: path limit reached, exploration truncated", self.cfg_name));
        }
    }
}

/// run `work` over all items on up to `threads` worker threads; each worker owns its thread-local arena
pub fn par_run<T: Send + Sync, F>(items: Vec<T>, threads: usize, work: F) -> Report
where
    F: Fn(&T) -> Report + Send + Sync,
{
    let total = Mutex::new(Report::default());
    let next = Mutex::new(0usize);
    let mut items = items;
    if let Some(n) = std::env::var("VERIF_MAX_ITEMS").ok().and_then(|s| s.parse::<usize>().ok()) {
        // debugging aid only: never set by the registered commands
        let skip = std::env::var("VERIF_SKIP_ITEMS").ok().and_then(|s| s.parse::<usize>().ok()).unwrap_or(0);
        items = items.into_iter().skip(skip).take(n).collect();
    }
    let items = &items;
    let work = &work;
    // global wall-clock budget of the engine (set by the driver per tier): when it is used up no further item is
    // started and the report says so - findings made so far are still reported
    let budget = std::env::var("VERIF_ENGINE_SECONDS").ok().and_then(|s| s.parse::<u64>().ok()).unwrap_or(u64::MAX);
    let t_start = Instant::now();
    let skipped = Mutex::new(0usize);
    // once a handful of violations have been reproduced against the real crate the property is refuted on this tree:
    // no further configuration is started (on such trees every remaining one tends to produce abstract counterexamples
    // by the thousand); the report says how many were left out
    let refuted = std::sync::atomic::AtomicBool::new(false);
    let not_started = Mutex::new(0usize);
    let n_confirmed = Mutex::new(0usize);
    std::thread::scope(|s| {
        for _ in 0..threads.max(1).min(items.len().max(1)) {
            s.spawn(|| loop {
                let i = {
                    let mut n = next.lock().unwrap();
                    let i = *n;
                    *n += 1;
                    i
                };
                if i >= items.len() {
                    break;
                }
                if t_start.elapsed().as_secs() >= budget {
                    *skipped.lock().unwrap() += 1;
                    continue;
                }
                if refuted.load(std::sync::atomic::Ordering::SeqCst) {
                    *not_started.lock().unwrap() += 1;
                    continue;
                }
                with_ctx(|c: &mut Ctx| {
                    c.session = None;
                    c.reset_all()
                });
                let r = std::panic::catch_unwind(std::panic::AssertUnwindSafe(|| work(&items[i])));
                let rep = match r {
                    Ok(r) => r,
                    Err(p) => {
                        let msg = if let Some(s) = p.downcast_ref::<String>() {
                            s.clone()
                        } else if let Some(s) = p.downcast_ref::<&str>() {
                            s.to_string()
                        } else {
                            "panic".into()
                        };
                        let mut r = Report::default();
                        r.errors.push(format!("worker panicked on item {i}: {msg}"));
                        r
                    }
                };
                let confirmed = rep.findings.iter().any(|f| f.reproduced == Some(true));
                let mut t = total.lock().unwrap();
                t.merge(rep);
                if confirmed {
                    let mut n = n_confirmed.lock().unwrap();
                    *n += 1;
                    if *n >= 4 {
                        refuted.store(true, std::sync::atomic::Ordering::SeqCst);
                    }
                }
            });
        }
    });
    let mut total = total.into_inner().unwrap();
    let sk = skipped.into_inner().unwrap();
    let ns = not_started.into_inner().unwrap();
    if ns > 0 {
        total.notes.push(format!("refuted: 4 configurations produced a violation that was reproduced against the real crate; {ns} of {} configurations were not started", items.len()));
    }
    if sk > 0 {
        total.errors.push(format!("engine time budget of {budget} s exhausted: {sk} of {} configurations were not started", items.len()));
    }
    total
}
