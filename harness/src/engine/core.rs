//! Engine S core: a `Copy` symbolic scalar (`Sym`) that records terms in a thread-local hash-consed
//! arena, with comparisons and float->usize casts as branch points, and a DFS path explorer that
//! re-executes a closure once per feasible decision vector.
//!
//! Three execution styles share this code:
//!  * symbolic, mode R  (terms are reals; exact rational constant folding),
//!  * symbolic, mode O  (terms are IEEE values, arithmetic uninterpreted; only IEEE-exact folding),
//!  * concolic          (every node carries an f64 shadow computed op by op in IEEE arithmetic; decisions
//!                       follow the shadow) - used for translator validation against the native f64 crate.
use std::cell::RefCell;
use std::collections::HashMap;
use std::fmt;
use std::ops::*;

use super::smt::{Answer, Session};

// ---------------------------------------------------------------- rationals
fn gcd(a: i128, b: i128) -> i128 {
    let (mut a, mut b) = (a.abs(), b.abs());
    while b != 0 {
        let t = a % b;
        a = b;
        b = t;
    }
    a
}
/// exact rational, i128 fraction, always normalised (den > 0, gcd 1)
#[derive(Clone, Copy, PartialEq, Eq, Hash, Debug)]
pub struct Rat(pub i128, pub i128);
impl Rat {
    pub fn new(n: i128, d: i128) -> Rat {
        assert!(d != 0, "Rat with zero denominator");
        let g = gcd(n, d).max(1);
        let s = if d < 0 { -1 } else { 1 };
        Rat(s * n / g, s * d / g)
    }
    pub fn int(n: i128) -> Rat {
        Rat(n, 1)
    }
    pub fn is_int(&self) -> bool {
        self.1 == 1
    }
    pub fn add(self, o: Rat) -> Option<Rat> {
        let n = self.0.checked_mul(o.1)?.checked_add(o.0.checked_mul(self.1)?)?;
        Some(Rat::new(n, self.1.checked_mul(o.1)?))
    }
    pub fn sub(self, o: Rat) -> Option<Rat> {
        self.add(Rat(-o.0, o.1))
    }
    pub fn mul(self, o: Rat) -> Option<Rat> {
        // cross-reduce first to keep numbers small
        let g1 = gcd(self.0, o.1).max(1);
        let g2 = gcd(o.0, self.1).max(1);
        Some(Rat::new((self.0 / g1).checked_mul(o.0 / g2)?, (self.1 / g2).checked_mul(o.1 / g1)?))
    }
    pub fn div(self, o: Rat) -> Option<Rat> {
        if o.0 == 0 {
            return None;
        }
        self.mul(Rat::new(o.1, o.0))
    }
    pub fn cmp(self, o: Rat) -> Option<std::cmp::Ordering> {
        Some(self.0.checked_mul(o.1)?.cmp(&o.0.checked_mul(self.1)?))
    }
    pub fn floor(self) -> i128 {
        self.0.div_euclid(self.1)
    }
    pub fn to_f64(self) -> f64 {
        self.0 as f64 / self.1 as f64
    }
    pub fn smt_real(&self) -> String {
        let a = if self.0 < 0 { format!("(- {}.0)", -self.0) } else { format!("{}.0", self.0) };
        if self.1 == 1 {
            a
        } else {
            format!("(/ {} {}.0)", a, self.1)
        }
    }
    /// exact rational value of a finite f64
    pub fn from_f64(f: f64) -> Option<Rat> {
        if !f.is_finite() {
            return None;
        }
        if f == 0.0 {
            return Some(Rat(0, 1));
        }
        let bits = f.to_bits();
        let sign: i128 = if bits >> 63 == 1 { -1 } else { 1 };
        let exp = ((bits >> 52) & 0x7ff) as i32;
        let frac = (bits & ((1u64 << 52) - 1)) as i128;
        let (m, e) = if exp == 0 { (frac, -1074) } else { (frac | (1i128 << 52), exp - 1075) };
        if e >= 0 {
            if e > 60 {
                return None;
            }
            Some(Rat::new(sign * m * (1i128 << e), 1))
        } else {
            if -e > 120 {
                return None;
            }
            Some(Rat::new(sign * m, 1i128 << (-e)))
        }
    }
}
impl fmt::Display for Rat {
    fn fmt(&self, f: &mut fmt::Formatter<'_>) -> fmt::Result {
        if self.1 == 1 {
            write!(f, "{}", self.0)
        } else {
            write!(f, "{}/{}", self.0, self.1)
        }
    }
}

// ---------------------------------------------------------------- terms
#[derive(Clone, Copy, PartialEq, Eq, Hash, Debug)]
pub enum Op {
    Add,
    Sub,
    Mul,
    Div,
    Rem,
    RemEuclid,
    DivEuclid,
    Pow,
}
#[derive(Clone, PartialEq, Eq, Hash, Debug)]
pub enum Node {
    Var(u32),
    Const(Rat),
    /// a finite f64 constant (bit pattern) whose exact value does not fit the i128 rational `Rat`
    /// (very small / very large magnitude thresholds); never folded, compared through its exact value
    FConst(u64),
    Bin(Op, u32, u32),
    Neg(u32),
}
#[derive(Clone, Copy, PartialEq, Eq, Hash, Debug)]
pub enum Cmp {
    Lt,
    Le,
    Gt,
    Ge,
    Eq,
}
#[derive(Clone, PartialEq, Eq, Hash, Debug)]
pub enum Cond {
    Cmp(Cmp, u32, u32),
    /// float -> usize cast of term: Some(k) = truncates to k; None = cast fails (negative / NaN)
    ToUsize(u32, Option<usize>),
    /// float -> usize cast yields a value >= bound (mode R only)
    ToUsizeBig(u32, usize),
    /// free boolean (failure injection); id indexes `Ctx::bool_names`
    Bool(u32),
}
#[derive(Clone, PartialEq, Eq, Hash, Debug)]
pub struct Lit {
    pub cond: Cond,
    pub val: bool,
    /// true when the literal was forced by `assume_*` (a precondition), false for a branch decision
    pub assumed: bool,
}

#[derive(Clone, Copy, PartialEq, Eq, Debug)]
pub enum Mode {
    R,
    O,
}

const LT: u8 = 1;
const EQ: u8 = 2;
const GT: u8 = 4;
const UN: u8 = 8;
fn truth_set(k: Cmp) -> u8 {
    match k {
        Cmp::Lt => LT,
        Cmp::Le => LT | EQ,
        Cmp::Gt => GT,
        Cmp::Ge => GT | EQ,
        Cmp::Eq => EQ,
    }
}
fn flip(s: u8) -> u8 {
    (s & (EQ | UN)) | if s & LT != 0 { GT } else { 0 } | if s & GT != 0 { LT } else { 0 }
}

struct Frame {
    arity: usize,
    taken: usize,
    mask: u64,
}

/// payload used to abandon a path (failed assumption / infeasible prefix)
pub struct Abandon(pub &'static str);

pub struct Ctx {
    pub nodes: Vec<Node>,
    intern: HashMap<Node, u32>,
    pub var_names: Vec<String>,
    var_ids: HashMap<String, u32>,
    pub bool_names: Vec<String>,
    pub mode: Mode,
    // ---- concolic
    pub concolic: bool,
    pub shadow: Vec<f64>,
    pub var_vals: HashMap<String, f64>,
    /// exact bindings: `Sym::var(name)` returns the constant (exact replay of a model)
    pub bindings: HashMap<String, Rat>,
    // ---- path state
    frames: Vec<Frame>,
    pos: usize,
    pub pc: Vec<Lit>,
    rel: HashMap<(u32, u32), u8>,
    cast_memo: HashMap<u32, Option<usize>>,
    bool_memo: HashMap<u32, bool>,
    pub max_index: usize,
    last_usize_cast: usize,
    pub decisions: u64,
    pub prune_queries: u64,
    pub session: Option<Session>,
    pub prune: bool,
    pub overflowed: bool,
}
impl Default for Ctx {
    fn default() -> Self {
        Ctx {
            nodes: vec![],
            intern: HashMap::new(),
            var_names: vec![],
            var_ids: HashMap::new(),
            bool_names: vec![],
            mode: Mode::R,
            concolic: false,
            shadow: vec![],
            var_vals: HashMap::new(),
            bindings: HashMap::new(),
            frames: vec![],
            pos: 0,
            pc: vec![],
            rel: HashMap::new(),
            cast_memo: HashMap::new(),
            bool_memo: HashMap::new(),
            max_index: 0,
            last_usize_cast: 0,
            decisions: 0,
            prune_queries: 0,
            session: None,
            prune: true,
            overflowed: false,
        }
    }
}
thread_local! { pub static CTX: RefCell<Ctx> = RefCell::new(Ctx::default()); }

pub fn with_ctx<R>(f: impl FnOnce(&mut Ctx) -> R) -> R {
    CTX.with(|c| f(&mut c.borrow_mut()))
}

impl Ctx {
    pub fn node(&self, t: u32) -> &Node {
        &self.nodes[t as usize]
    }
    pub fn mk(&mut self, n: Node) -> u32 {
        if let Some(&i) = self.intern.get(&n) {
            return i;
        }
        let i = self.nodes.len() as u32;
        if self.concolic {
            let v = self.eval_shadow(&n);
            self.shadow.push(v);
        }
        self.nodes.push(n.clone());
        self.intern.insert(n, i);
        i
    }
    fn eval_shadow(&self, n: &Node) -> f64 {
        let s = |i: u32| self.shadow[i as usize];
        match n {
            Node::Var(v) => *self.var_vals.get(&self.var_names[*v as usize]).unwrap_or_else(|| panic!("concolic: unbound variable {}", self.var_names[*v as usize])),
            Node::Const(r) => r.to_f64(),
            Node::FConst(b) => f64::from_bits(*b),
            Node::Neg(a) => -s(*a),
            Node::Bin(op, a, b) => {
                let (a, b) = (s(*a), s(*b));
                match op {
                    Op::Add => a + b,
                    Op::Sub => a - b,
                    Op::Mul => a * b,
                    Op::Div => a / b,
                    Op::Rem => a % b,
                    Op::RemEuclid => num_traits::Euclid::rem_euclid(&a, &b),
                    Op::DivEuclid => num_traits::Euclid::div_euclid(&a, &b),
                    Op::Pow => num_traits::Pow::pow(a, b),
                }
            }
        }
    }
    pub fn var(&mut self, name: &str) -> u32 {
        if let Some(r) = self.bindings.get(name) {
            let r = *r;
            return self.mk(Node::Const(r));
        }
        let id = match self.var_ids.get(name) {
            Some(&i) => i,
            None => {
                let i = self.var_names.len() as u32;
                self.var_names.push(name.to_string());
                self.var_ids.insert(name.to_string(), i);
                i
            }
        };
        self.mk(Node::Var(id))
    }
    pub fn konst(&self, t: u32) -> Option<Rat> {
        if let Node::Const(r) = self.nodes[t as usize] {
            Some(r)
        } else {
            None
        }
    }
    /// forget everything (arena, variables, path state); keeps mode/prune flags
    pub fn reset_all(&mut self) {
        let (mode, prune) = (self.mode, self.prune);
        *self = Ctx::default();
        self.mode = mode;
        self.prune = prune;
    }
    fn reset_path(&mut self) {
        self.pos = 0;
        self.pc.clear();
        self.rel.clear();
        self.cast_memo.clear();
        self.bool_memo.clear();
        self.last_usize_cast = 0;
    }
    /// advance the DFS to the next unexplored feasible alternative; false when exhausted
    fn backtrack(&mut self) -> bool {
        while let Some(f) = self.frames.last_mut() {
            let mut k = f.taken + 1;
            while k < f.arity && (f.mask >> k) & 1 == 0 {
                k += 1;
            }
            if k < f.arity {
                f.taken = k;
                return true;
            }
            self.frames.pop();
        }
        false
    }
    /// choose among `arity` alternatives; `feasible(ctx, k)` is consulted only for new decisions
    fn choose(&mut self, arity: usize, feasible: &mut dyn FnMut(&mut Ctx, usize) -> bool) -> usize {
        assert!(arity <= 64);
        if self.pos < self.frames.len() {
            let f = &self.frames[self.pos];
            assert_eq!(f.arity, arity, "non-deterministic harness: decision arity changed on replay");
            self.pos += 1;
            return f.taken;
        }
        self.decisions += 1;
        let mut mask = 0u64;
        for k in 0..arity {
            if feasible(self, k) {
                mask |= 1 << k;
            }
        }
        if mask == 0 {
            std::panic::panic_any(Abandon("no feasible alternative"));
        }
        let taken = mask.trailing_zeros() as usize;
        self.frames.push(Frame { arity, taken, mask });
        self.pos += 1;
        taken
    }
    /// is `pc && lit` satisfiable according to the pruning session? (unknown counts as yes)
    fn lit_feasible(&mut self, lit: &Lit) -> bool {
        if !self.prune || self.session.is_none() {
            return true;
        }
        let mut s = self.session.take().unwrap();
        let mut asserts: Vec<String> = Vec::with_capacity(self.pc.len() + 1);
        for l in &self.pc {
            asserts.push(s.lit(self, l));
        }
        asserts.push(s.lit(self, lit));
        self.prune_queries += 1;
        let t0 = std::time::Instant::now();
        let a = s.check(self, &asserts);
        if t0.elapsed().as_millis() > 1500 && std::env::var("VERIF_DEBUG").is_ok() {
            eprintln!("slow prune query {:.1}s -> {:?} :: {}", t0.elapsed().as_secs_f64(), a, asserts.last().map(|s| s.chars().take(160).collect::<String>()).unwrap_or_default());
        }
        self.session = Some(s);
        !matches!(a, Answer::Unsat)
    }
    fn pair_state(&self, a: u32, b: u32) -> u8 {
        let full = if self.mode == Mode::O { LT | EQ | GT | UN } else { LT | EQ | GT };
        if a == b {
            return full & (EQ | UN);
        }
        let (k, fl) = if a < b { ((a, b), false) } else { ((b, a), true) };
        let s = *self.rel.get(&k).unwrap_or(&full);
        if fl {
            flip(s)
        } else {
            s
        }
    }
    fn set_pair_state(&mut self, a: u32, b: u32, s: u8) {
        let (k, s) = if a <= b { ((a, b), s) } else { ((b, a), flip(s)) };
        self.rel.insert(k, s);
    }
    pub fn decide(&mut self, k: Cmp, a: u32, b: u32) -> bool {
        if self.concolic {
            let (x, y) = (self.shadow[a as usize], self.shadow[b as usize]);
            return match k {
                Cmp::Lt => x < y,
                Cmp::Le => x <= y,
                Cmp::Gt => x > y,
                Cmp::Ge => x >= y,
                Cmp::Eq => x == y,
            };
        }
        if let (Some(x), Some(y)) = (self.konst(a), self.konst(b)) {
            let representable = |r: Rat| r.0.abs() < (1i128 << 53) && (r.1 & (r.1 - 1)) == 0 && r.1 <= (1i128 << 60);
            // in mode O constants denote their nearest double: only exactly representable ones are compared here
            let ok = self.mode == Mode::R || (representable(x) && representable(y));
            if let (Some(o), true) = (x.cmp(y), ok) {
                use std::cmp::Ordering::*;
                return match k {
                    Cmp::Lt => o == Less,
                    Cmp::Le => o != Greater,
                    Cmp::Gt => o == Greater,
                    Cmp::Ge => o != Less,
                    Cmp::Eq => o == Equal,
                };
            }
        }
        // exact comparison when an out-of-range float constant is involved and both sides are exactly representable doubles
        {
            let as_f64 = |n: &Node| -> Option<f64> {
                match n {
                    Node::FConst(b) => Some(f64::from_bits(*b)),
                    Node::Const(r) if r.0.abs() < (1i128 << 53) && (r.1 & (r.1 - 1)) == 0 && r.1 <= (1i128 << 60) => Some(r.to_f64()),
                    _ => None,
                }
            };
            let (na, nb) = (self.nodes[a as usize].clone(), self.nodes[b as usize].clone());
            if matches!(na, Node::FConst(_)) || matches!(nb, Node::FConst(_)) {
                if let (Some(x), Some(y)) = (as_f64(&na), as_f64(&nb)) {
                    return match k {
                        Cmp::Lt => x < y,
                        Cmp::Le => x <= y,
                        Cmp::Gt => x > y,
                        Cmp::Ge => x >= y,
                        Cmp::Eq => x == y,
                    };
                }
            }
        }
        let cur = self.pair_state(a, b);
        let t = truth_set(k);
        if cur & t == cur {
            return true;
        }
        if cur & t == 0 {
            return false;
        }
        let mk = |v: bool| Lit { cond: Cond::Cmp(k, a, b), val: v, assumed: false };
        let alt = self.choose(2, &mut |c: &mut Ctx, i: usize| c.lit_feasible(&mk(i == 0)));
        let v = alt == 0;
        self.set_pair_state(a, b, if v { cur & t } else { cur & !t });
        self.pc.push(mk(v));
        v
    }
    /// force a comparison to hold on this path (precondition); abandons the path if already refuted
    pub fn assume_cmp(&mut self, k: Cmp, a: u32, b: u32, val: bool) {
        if self.concolic {
            return;
        }
        let cur = self.pair_state(a, b);
        let t = if val { truth_set(k) } else { !truth_set(k) & 15 };
        if let (Some(x), Some(y)) = (self.konst(a), self.konst(b)) {
            if let Some(o) = x.cmp(y) {
                let s = match o {
                    std::cmp::Ordering::Less => LT,
                    std::cmp::Ordering::Equal => EQ,
                    std::cmp::Ordering::Greater => GT,
                };
                if s & t == 0 {
                    std::panic::panic_any(Abandon("assumption refuted (constants)"));
                }
                return;
            }
        }
        if cur & t == 0 {
            std::panic::panic_any(Abandon("assumption refuted"));
        }
        if cur & t != cur {
            self.set_pair_state(a, b, cur & t);
        }
        let lit = Lit { cond: Cond::Cmp(k, a, b), val, assumed: true };
        if !self.pc.contains(&lit) {
            self.pc.push(lit);
        }
    }
    pub fn to_usize(&mut self, t: u32) -> Option<usize> {
        if self.concolic {
            return num_traits::ToPrimitive::to_usize(&self.shadow[t as usize]);
        }
        if let Some(r) = self.konst(t) {
            // truncation towards zero; None for <= -1
            return if r.0 > -r.1 { Some(if r.0 < 0 { 0 } else { (r.0 / r.1) as usize }) } else { None };
        }
        if let Some(v) = self.cast_memo.get(&t) {
            return *v;
        }
        // the cast value indexes an axis whose last index was the most recent usize -> float cast (the lookup casts
        // 0 and len-1 right before): every index 0..=len-1 is a possible guess - rounding can push the guess of a
        // query just below the last knot onto len-1, which the real code tolerates (found by a seeded change)
        let m = if self.last_usize_cast >= 1 { self.max_index.min(self.last_usize_cast) } else { self.max_index };
        // alternatives: 0..=m -> Some(k); m+1 -> None (cast fails); m+2 -> too big (mode R only)
        let arity = if self.mode == Mode::R { m + 3 } else { m + 2 };
        let mk = |i: usize| Lit {
            cond: if i <= m {
                Cond::ToUsize(t, Some(i))
            } else if i == m + 1 {
                Cond::ToUsize(t, None)
            } else {
                Cond::ToUsizeBig(t, m + 1)
            },
            val: true,
            assumed: false,
        };
        let mode = self.mode;
        let alt = self.choose(arity, &mut |c: &mut Ctx, i: usize| if mode == Mode::R { c.lit_feasible(&mk(i)) } else { true });
        self.pc.push(mk(alt));
        let r = if alt <= m {
            Some(alt)
        } else if alt == m + 1 {
            None
        } else {
            Some(m + 1)
        };
        self.cast_memo.insert(t, r);
        r
    }
    pub fn nondet_bool(&mut self, name: &str) -> bool {
        let id = match self.bool_names.iter().position(|n| n == name) {
            Some(i) => i as u32,
            None => {
                self.bool_names.push(name.to_string());
                self.bool_names.len() as u32 - 1
            }
        };
        if let Some(&v) = self.bool_memo.get(&id) {
            return v;
        }
        let alt = self.choose(2, &mut |_, _| true);
        let v = alt == 0;
        self.bool_memo.insert(id, v);
        self.pc.push(Lit { cond: Cond::Bool(id), val: v, assumed: false });
        v
    }
    fn fold(&mut self, op: Op, x: Rat, y: Rat) -> Option<Rat> {
        // exactly representable double: dyadic, significand below 2^53, moderate exponent. If both operands and
        // the exact result are representable, the correctly rounded IEEE operation returns exactly that result.
        let exact_int = |r: Rat| r.0.abs() < (1i128 << 53) && r.1 > 0 && (r.1 & (r.1 - 1)) == 0 && r.1 <= (1i128 << 60);
        let r = match op {
            Op::Add => x.add(y),
            Op::Sub => x.sub(y),
            Op::Mul => x.mul(y),
            Op::Div => x.div(y),
            Op::Rem if self.mode == Mode::R && !self.concolic && y.0 != 0 => {
                // truncating remainder (Rust `%`): a - b * trunc(a / b), sign of the dividend
                let q = x.div(y)?;
                let t = if q.0 >= 0 { q.0 / q.1 } else { -((-q.0) / q.1) };
                y.mul(Rat::int(t)).and_then(|tb| x.sub(tb))
            }
            Op::RemEuclid | Op::DivEuclid if self.mode == Mode::R && !self.concolic && y.0 != 0 => {
                // a = k*p + r, k integer, 0 <= r < |p|
                let ap = Rat(y.0.abs(), y.1);
                let k = x.div(ap).map(|d| d.floor());
                match k {
                    Some(k) => {
                        let r = ap.mul(Rat::int(k)).and_then(|kp| x.sub(kp));
                        if op == Op::RemEuclid {
                            r
                        } else {
                            Some(Rat::int(if y.0 < 0 { -k } else { k }))
                        }
                    }
                    None => None,
                }
            }
            _ => return None,
        };
        if r.is_none() && !matches!(op, Op::Div) {
            self.overflowed = true;
        }
        let r = r?;
        if self.mode == Mode::O || self.concolic {
            // only IEEE-exact arithmetic on representable constants is folded
            if exact_int(x) && exact_int(y) && exact_int(r) {
                Some(r)
            } else {
                None
            }
        } else {
            Some(r)
        }
    }
    pub fn bin(&mut self, op: Op, a: u32, b: u32) -> u32 {
        if let (Some(x), Some(y)) = (self.konst(a), self.konst(b)) {
            if let Some(r) = self.fold(op, x, y) {
                return self.mk(Node::Const(r));
            }
        }
        if op == Op::Pow && self.mode == Mode::R && !self.concolic {
            match self.konst(b) {
                Some(Rat(2, 1)) => return self.bin(Op::Mul, a, a),
                Some(Rat(1, 1)) => return a,
                Some(Rat(3, 1)) => {
                    let s = self.bin(Op::Mul, a, a);
                    return self.bin(Op::Mul, s, a);
                }
                _ => panic!("engine S: symbolic exponent in pow is not modelled"),
            }
        }
        // IEEE addition and multiplication are commutative: canonical operand order
        let (a, b) = if matches!(op, Op::Add | Op::Mul) && a > b { (b, a) } else { (a, b) };
        self.mk(Node::Bin(op, a, b))
    }
    pub fn neg(&mut self, a: u32) -> u32 {
        if let Some(r) = self.konst(a) {
            if r.0 != 0 || (self.mode == Mode::R && !self.concolic) {
                return self.mk(Node::Const(Rat(-r.0, r.1)));
            }
        }
        self.mk(Node::Neg(a))
    }
}

// ---------------------------------------------------------------- the scalar
#[derive(Clone, Copy)]
pub struct Sym(pub u32);

impl Sym {
    pub fn var(name: &str) -> Sym {
        with_ctx(|c| Sym(c.var(name)))
    }
    pub fn rat(n: i128, d: i128) -> Sym {
        with_ctx(|c| Sym(c.mk(Node::Const(Rat::new(n, d)))))
    }
    pub fn int(n: i128) -> Sym {
        Sym::rat(n, 1)
    }
    pub fn konst(self) -> Option<Rat> {
        with_ctx(|c| c.konst(self.0))
    }
    pub fn shadow(self) -> f64 {
        with_ctx(|c| c.shadow[self.0 as usize])
    }
    fn bin(op: Op, a: Sym, b: Sym) -> Sym {
        with_ctx(|c| Sym(c.bin(op, a.0, b.0)))
    }
    fn decide(k: Cmp, a: Sym, b: Sym) -> bool {
        with_ctx(|c| c.decide(k, a.0, b.0))
    }
    /// precondition `a < b` etc. (no branch)
    pub fn assume_lt(a: Sym, b: Sym) {
        with_ctx(|c| c.assume_cmp(Cmp::Lt, a.0, b.0, true))
    }
    pub fn assume_le(a: Sym, b: Sym) {
        with_ctx(|c| c.assume_cmp(Cmp::Le, a.0, b.0, true))
    }
    pub fn assume_eq(a: Sym, b: Sym) {
        with_ctx(|c| c.assume_cmp(Cmp::Eq, a.0, b.0, true))
    }
    /// precondition: not NaN (x == x)
    pub fn assume_not_nan(a: Sym) {
        with_ctx(|c| c.assume_cmp(Cmp::Eq, a.0, a.0, true))
    }
    /// abandon the path unless `cond`
    pub fn assume(cond: bool) {
        if !cond && !with_ctx(|c| c.concolic) {
            std::panic::panic_any(Abandon("assume(false)"));
        }
    }
    pub fn nondet_bool(name: &str) -> bool {
        with_ctx(|c| c.nondet_bool(name))
    }
}
macro_rules! binop {
    ($tr:ident, $f:ident, $op:expr) => {
        impl $tr for Sym {
            type Output = Sym;
            fn $f(self, o: Sym) -> Sym {
                Sym::bin($op, self, o)
            }
        }
        impl<'a> $tr<&'a Sym> for Sym {
            type Output = Sym;
            fn $f(self, o: &Sym) -> Sym {
                Sym::bin($op, self, *o)
            }
        }
        impl<'a> $tr<Sym> for &'a Sym {
            type Output = Sym;
            fn $f(self, o: Sym) -> Sym {
                Sym::bin($op, *self, o)
            }
        }
        impl<'a, 'b> $tr<&'b Sym> for &'a Sym {
            type Output = Sym;
            fn $f(self, o: &Sym) -> Sym {
                Sym::bin($op, *self, *o)
            }
        }
    };
}
binop!(Add, add, Op::Add);
binop!(Sub, sub, Op::Sub);
binop!(Mul, mul, Op::Mul);
binop!(Div, div, Op::Div);
binop!(Rem, rem, Op::Rem);
impl Neg for Sym {
    type Output = Sym;
    fn neg(self) -> Sym {
        with_ctx(|c| Sym(c.neg(self.0)))
    }
}
impl SubAssign for Sym {
    fn sub_assign(&mut self, o: Sym) {
        *self = *self - o;
    }
}
impl AddAssign for Sym {
    fn add_assign(&mut self, o: Sym) {
        *self = *self + o;
    }
}
impl MulAssign for Sym {
    fn mul_assign(&mut self, o: Sym) {
        *self = *self * o;
    }
}
impl DivAssign for Sym {
    fn div_assign(&mut self, o: Sym) {
        *self = *self / o;
    }
}
impl PartialEq for Sym {
    fn eq(&self, o: &Sym) -> bool {
        Sym::decide(Cmp::Eq, *self, *o)
    }
}
impl PartialOrd for Sym {
    fn partial_cmp(&self, o: &Sym) -> Option<std::cmp::Ordering> {
        use std::cmp::Ordering::*;
        if Sym::decide(Cmp::Lt, *self, *o) {
            Some(Less)
        } else if Sym::decide(Cmp::Eq, *self, *o) {
            Some(Equal)
        } else if Sym::decide(Cmp::Gt, *self, *o) {
            Some(Greater)
        } else {
            None
        }
    }
    fn lt(&self, o: &Sym) -> bool {
        Sym::decide(Cmp::Lt, *self, *o)
    }
    fn le(&self, o: &Sym) -> bool {
        Sym::decide(Cmp::Le, *self, *o)
    }
    fn gt(&self, o: &Sym) -> bool {
        Sym::decide(Cmp::Gt, *self, *o)
    }
    fn ge(&self, o: &Sym) -> bool {
        Sym::decide(Cmp::Ge, *self, *o)
    }
}
impl fmt::Debug for Sym {
    fn fmt(&self, f: &mut fmt::Formatter<'_>) -> fmt::Result {
        write!(f, "t{}", self.0)
    }
}
impl num_traits::Zero for Sym {
    fn zero() -> Sym {
        Sym::rat(0, 1)
    }
    fn is_zero(&self) -> bool {
        *self == Sym::rat(0, 1)
    }
}
impl num_traits::One for Sym {
    fn one() -> Sym {
        Sym::rat(1, 1)
    }
}
impl num_traits::Num for Sym {
    type FromStrRadixErr = ();
    fn from_str_radix(_: &str, _: u32) -> Result<Sym, ()> {
        Err(())
    }
}
impl num_traits::ToPrimitive for Sym {
    fn to_i64(&self) -> Option<i64> {
        self.to_usize().map(|u| u as i64)
    }
    fn to_u64(&self) -> Option<u64> {
        self.to_usize().map(|u| u as u64)
    }
    fn to_usize(&self) -> Option<usize> {
        with_ctx(|c| c.to_usize(self.0))
    }
    fn to_f64(&self) -> Option<f64> {
        if with_ctx(|c| c.concolic) {
            return Some(self.shadow());
        }
        self.konst().map(|r| r.to_f64())
    }
}
impl num_traits::NumCast for Sym {
    fn from<T: num_traits::ToPrimitive>(n: T) -> Option<Sym> {
        // model: exact for integers and for dyadic constants (0.0, 1.0, 2.0, 3.0, usize indices)
        let f = n.to_f64()?;
        if let Some(i) = n.to_i64() {
            if f == i as f64 {
                if i >= 0 && n.to_u64() == Some(i as u64) {
                    with_ctx(|c| c.last_usize_cast = i as usize);
                }
                return Some(Sym::rat(i as i128, 1));
            }
        }
        if !f.is_finite() {
            return None; // like num-traits for f64 -> f64 this would succeed; the crate never casts a non-finite literal
        }
        match Rat::from_f64(f) {
            Some(r) => Some(with_ctx(|c| Sym(c.mk(Node::Const(r))))),
            // outside the range of the i128 rational: keep the exact double as an opaque constant
            None => Some(with_ctx(|c| Sym(c.mk(Node::FConst(f.to_bits()))))),
        }
    }
}
impl num_traits::Pow<Sym> for Sym {
    type Output = Sym;
    fn pow(self, e: Sym) -> Sym {
        Sym::bin(Op::Pow, self, e)
    }
}
impl num_traits::Euclid for Sym {
    fn div_euclid(&self, v: &Sym) -> Sym {
        Sym::bin(Op::DivEuclid, *self, *v)
    }
    fn rem_euclid(&self, v: &Sym) -> Sym {
        Sym::bin(Op::RemEuclid, *self, *v)
    }
}
impl ndarray::ScalarOperand for Sym {}

// ---------------------------------------------------------------- exploration
#[derive(Clone, Debug)]
pub struct Path<R> {
    pub pc: Vec<Lit>,
    /// Ok(value returned by the closure) or Err(panic message)
    pub result: Result<R, String>,
}
#[derive(Clone, Debug, Default)]
pub struct ExploreStats {
    pub runs: u64,
    pub abandoned: u64,
    pub decisions: u64,
    pub prune_queries: u64,
    pub truncated: bool,
}

pub fn silence_panics() {
    use std::sync::Once;
    static ONCE: Once = Once::new();
    ONCE.call_once(|| {
        let default = std::panic::take_hook();
        std::panic::set_hook(Box::new(move |info| {
            if std::env::var("VERIF_SHOW_PANICS").is_ok() {
                default(info);
            }
        }));
    });
}

pub struct ExploreCfg {
    pub mode: Mode,
    pub max_index: usize,
    /// eager pruning with a solver session (mode R: always useful; mode O: prunes order-infeasible paths)
    pub prune: bool,
    pub max_paths: usize,
    pub timeout_ms: u64,
    /// wall-clock budget of one exploration; when exceeded the exploration is truncated (reported, never a pass)
    pub max_seconds: u64,
}
impl ExploreCfg {
    pub fn new(mode: Mode, max_index: usize) -> Self {
        let max_seconds = std::env::var("VERIF_EXPLORE_SECONDS").ok().and_then(|s| s.parse().ok()).unwrap_or(240);
        ExploreCfg { mode, max_index, prune: true, max_paths: 20000, timeout_ms: 5000, max_seconds }
    }
}

/// Re-execute `f` once per feasible decision vector. The arena is *not* reset, so terms built outside
/// `f` (inputs) stay valid and equal computations are equal nodes across paths.
pub fn explore<R>(cfg: &ExploreCfg, mut f: impl FnMut() -> R) -> (Vec<Path<R>>, ExploreStats) {
    silence_panics();
    let mut out = vec![];
    let mut stats = ExploreStats::default();
    with_ctx(|c| {
        c.mode = cfg.mode;
        c.max_index = cfg.max_index;
        c.prune = cfg.prune;
        c.frames.clear();
        c.decisions = 0;
        c.prune_queries = 0;
        if cfg.prune && c.session.as_ref().map(|s| s.mode != cfg.mode).unwrap_or(true) {
            c.session = Some(if cfg.mode == Mode::O {
                Session::new_abs(cfg.timeout_ms)
            } else {
                let mut s = Session::new(cfg.mode, cfg.timeout_ms);
                s.rem_free = true;
                s
            });
        }
        if let Some(s) = c.session.as_mut() {
            s.timeout_ms = cfg.timeout_ms;
        }
    });
    let t_start = std::time::Instant::now();
    loop {
        with_ctx(|c| c.reset_path());
        let r = std::panic::catch_unwind(std::panic::AssertUnwindSafe(|| f()));
        stats.runs += 1;
        match r {
            Ok(v) => out.push(Path { pc: with_ctx(|c| c.pc.clone()), result: Ok(v) }),
            Err(p) => {
                // a panic while the context was borrowed would poison nothing: RefCell borrow is released on unwind
                if p.downcast_ref::<Abandon>().is_some() {
                    stats.abandoned += 1;
                } else {
                    let msg = if let Some(s) = p.downcast_ref::<String>() {
                        s.clone()
                    } else if let Some(s) = p.downcast_ref::<&str>() {
                        s.to_string()
                    } else {
                        "<non-string panic payload>".to_string()
                    };
                    out.push(Path { pc: with_ctx(|c| c.pc.clone()), result: Err(msg) });
                }
            }
        }
        if out.len() >= cfg.max_paths || t_start.elapsed().as_secs() >= cfg.max_seconds {
            stats.truncated = true;
            break;
        }
        if !with_ctx(|c| c.backtrack()) {
            break;
        }
    }
    with_ctx(|c| {
        stats.decisions = c.decisions;
        stats.prune_queries = c.prune_queries;
        c.frames.clear();
        c.reset_path();
    });
    (out, stats)
}

/// run `f` once without exploring (inputs are constants / bindings): any real decision is an error
pub fn run_concrete<R>(mode: Mode, f: impl FnOnce() -> R) -> Result<R, String> {
    silence_panics();
    with_ctx(|c| {
        c.mode = mode;
        c.frames.clear();
        c.reset_path();
        c.prune = false;
    });
    let r = std::panic::catch_unwind(std::panic::AssertUnwindSafe(f));
    let undecided = with_ctx(|c| {
        let n = c.frames.len();
        c.frames.clear();
        c.reset_path();
        n
    });
    match r {
        Ok(v) if undecided == 0 => Ok(v),
        Ok(_) => Err(format!("concrete run took {undecided} symbolic decisions")),
        Err(p) => Err(if let Some(s) = p.downcast_ref::<String>() {
            format!("panic: {s}")
        } else if let Some(s) = p.downcast_ref::<&str>() {
            format!("panic: {s}")
        } else if let Some(a) = p.downcast_ref::<Abandon>() {
            format!("abandoned: {}", a.0)
        } else {
            "panic".into()
        }),
    }
}

/// concolic execution: variables take the given f64 values, decisions follow IEEE comparisons on the
/// shadows, every node's shadow is the IEEE evaluation of its operation. Resets the arena.
pub fn run_concolic<R>(vals: &[(String, f64)], f: impl FnOnce() -> R) -> Result<R, String> {
    silence_panics();
    with_ctx(|c| {
        c.reset_all();
        c.mode = Mode::O;
        c.concolic = true;
        for (n, v) in vals {
            c.var_vals.insert(n.clone(), *v);
        }
    });
    let r = std::panic::catch_unwind(std::panic::AssertUnwindSafe(f));
    let out = match r {
        Ok(v) => Ok(v),
        Err(p) => Err(if let Some(s) = p.downcast_ref::<String>() {
            s.clone()
        } else if let Some(s) = p.downcast_ref::<&str>() {
            s.to_string()
        } else {
            "panic".into()
        }),
    };
    out
}
pub fn end_concolic() {
    with_ctx(|c| c.reset_all());
}
