//! SMT-LIB emission of recorded terms (mode R: reals; mode O: IEEE sort + uninterpreted arithmetic) and a
//! long-lived incremental solver process (`z3 -in` by default) with push/pop and a hard wall-clock
//! timeout (z3's soft timeout is not honoured inside nlsat).
use std::collections::{HashMap, HashSet};
use std::io::{BufRead, BufReader, Write};
use std::process::{Child, ChildStdin, Command, Stdio};
use std::sync::mpsc::{channel, Receiver, RecvTimeoutError};
use std::time::{Duration, Instant};

use super::core::{Cmp, Cond, Ctx, Lit, Mode, Node, Op};

#[derive(Clone, Debug, PartialEq)]
pub enum Answer {
    Sat,
    Unsat,
    /// unknown / timeout / error text: inconclusive
    Unknown(String),
}

pub struct Session {
    pub mode: Mode,
    pub solver: String,
    pub float_bits: (u32, u32),
    /// mode O only: order abstraction used for path pruning - every term is an opaque element that is either
    /// NaN or a point of the real line; comparison literals keep their IEEE meaning (unordered on NaN).
    /// Any IEEE model maps to a model of the abstraction, so `unsat` here implies `unsat` bit-precisely
    /// (pruning with it never drops a feasible path); obligations are never asked in this mode.
    pub abs: bool,
    /// mode R pruning sessions: rem_euclid results are only bounded (0 <= r < |p|), the integer quotient is
    /// dropped - an over-approximation, so pruning stays sound; z3 is erratic on the mixed integer/real form
    pub rem_free: bool,
    /// mode O with + - * / read as the IEEE-754 operations (round to nearest even) instead of uninterpreted functions
    pub ieee: bool,
    child: Option<Child>,
    stdin: Option<ChildStdin>,
    rx: Option<Receiver<String>>,
    defined: HashSet<u32>,
    declared_vars: HashSet<u32>,
    declared_bools: HashSet<u32>,
    names: HashMap<u32, String>,
    pending: String,
    /// everything sent at base level since start (for self-contained sample scripts / restart)
    pub base_log: String,
    pub timeout_ms: u64,
    pub queries: u64,
    pub solver_time: Duration,
    pub restarts: u64,
    pub last_query: String,
    /// budget of the incremental stage of a query (ms)
    pub fast_ms: u64,
    /// queries that had to be re-asked in a fresh process
    pub oneshots: u64,
}

pub fn solver_cmd(name: &str) -> (String, Vec<String>) {
    match name {
        "z3" => ("z3".into(), vec!["-in".into()]),
        "z3-new" => ("z3-new".into(), vec!["-in".into()]),
        "cvc5" => ("cvc5".into(), vec!["--incremental".into(), "--lang".into(), "smt2".into(), "--produce-models".into()]),
        other => panic!("unknown solver {other}"),
    }
}

impl Session {
    pub fn new(mode: Mode, timeout_ms: u64) -> Session {
        Session::with_solver(mode, timeout_ms, "z3", (11, 53))
    }
    pub fn with_solver(mode: Mode, timeout_ms: u64, solver: &str, float_bits: (u32, u32)) -> Session {
        let mut s = Session {
            mode,
            solver: solver.into(),
            float_bits,
            abs: false,
            rem_free: false,
            ieee: false,
            child: None,
            stdin: None,
            rx: None,
            defined: HashSet::new(),
            declared_vars: HashSet::new(),
            declared_bools: HashSet::new(),
            names: HashMap::new(),
            pending: String::new(),
            base_log: String::new(),
            timeout_ms,
            queries: 0,
            solver_time: Duration::ZERO,
            restarts: 0,
            last_query: String::new(),
            fast_ms: 2500,
            oneshots: 0,
        };
        s.spawn();
        s
    }
    /// mode O session with bit-precise IEEE-754 arithmetic for + - * / (% / rem_euclid / powi stay uninterpreted)
    pub fn new_ieee(timeout_ms: u64) -> Session {
        let mut s = Session::with_solver(Mode::O, timeout_ms, "z3", (11, 53));
        s.ieee = true;
        if let Some(mut c) = s.child.take() {
            let _ = c.kill();
            let _ = c.wait();
        }
        s.base_log.clear();
        s.spawn();
        s
    }
    /// pruning session for mode O using the order abstraction
    pub fn new_abs(timeout_ms: u64) -> Session {
        let mut s = Session::with_solver(Mode::O, timeout_ms, "z3", (11, 53));
        s.abs = true;
        if let Some(mut c) = s.child.take() {
            let _ = c.kill();
            let _ = c.wait();
        }
        s.spawn();
        s
    }
    fn prelude(&self) -> String {
        let mut p = String::from("(set-option :print-success false)\n(set-logic ALL)\n");
        if self.mode == Mode::O && !self.abs {
            let (e, m) = self.float_bits;
            p += &format!("(define-sort F () (_ FloatingPoint {e} {m}))\n");
            for (f, op) in [("uadd", "fp.add"), ("usub", "fp.sub"), ("umul", "fp.mul"), ("udiv", "fp.div"), ("urem", ""), ("ureme", ""), ("udive", ""), ("upow", "")] {
                if self.ieee && !op.is_empty() {
                    p += &format!("(define-fun {f} ((a F) (b F)) F ({op} RNE a b))\n");
                } else {
                    p += &format!("(declare-fun {f} (F F) F)\n");
                }
            }
            p += "(declare-fun utousize (F) Int)\n";
        }
        p
    }
    fn spawn(&mut self) {
        let (bin, args) = solver_cmd(&self.solver);
        let mut child = Command::new(bin).args(args).stdin(Stdio::piped()).stdout(Stdio::piped()).stderr(Stdio::null()).spawn().expect("cannot start solver");
        let stdin = child.stdin.take().unwrap();
        let stdout = child.stdout.take().unwrap();
        let (tx, rx) = channel();
        std::thread::spawn(move || {
            let r = BufReader::new(stdout);
            for l in r.lines() {
                match l {
                    Ok(l) => {
                        if tx.send(l).is_err() {
                            break;
                        }
                    }
                    Err(_) => break,
                }
            }
        });
        self.child = Some(child);
        self.stdin = Some(stdin);
        self.rx = Some(rx);
        let pre = self.prelude();
        self.base_log = pre.clone();
        self.send(&pre);
        self.defined.clear();
        self.declared_vars.clear();
        self.declared_bools.clear();
        self.names.clear();
        self.pending.clear();
    }
    /// kill the solver process and start a new one that is brought to the same base level (all
    /// declarations and definitions are replayed), so rendered term names stay valid
    fn restart(&mut self) {
        if let Some(mut c) = self.child.take() {
            let _ = c.kill();
            let _ = c.wait();
        }
        self.restarts += 1;
        let log = std::mem::take(&mut self.base_log);
        let keep = (std::mem::take(&mut self.defined), std::mem::take(&mut self.declared_vars), std::mem::take(&mut self.declared_bools), std::mem::take(&mut self.names), std::mem::take(&mut self.pending));
        self.spawn();
        let pre = self.prelude();
        let rest = log.strip_prefix(pre.as_str()).unwrap_or("").to_string();
        self.base_log += &rest;
        self.send(&rest);
        self.defined = keep.0;
        self.declared_vars = keep.1;
        self.declared_bools = keep.2;
        self.names = keep.3;
        self.pending = keep.4;
    }
    fn send(&mut self, s: &str) {
        if let Some(i) = self.stdin.as_mut() {
            let _ = i.write_all(s.as_bytes());
            let _ = i.flush();
        }
    }
    fn sort(&self) -> &'static str {
        if self.mode == Mode::R {
            "Real"
        } else {
            "F"
        }
    }
    fn konst(&self, r: &super::core::Rat) -> String {
        if self.mode == Mode::R {
            r.smt_real()
        } else {
            let (e, m) = self.float_bits;
            format!("((_ to_fp {e} {m}) RNE {})", r.smt_real())
        }
    }
    /// SMT text for term `t`; emits (at base level, so they survive pop) any declarations needed
    pub fn term(&mut self, ctx: &Ctx, t: u32) -> String {
        if let Some(s) = self.names.get(&t) {
            return s.clone();
        }
        if self.abs {
            let s = match ctx.node(t) {
                Node::Const(r) => r.smt_real(),
                Node::FConst(b) => exact_real_of_f64(f64::from_bits(*b)),
                _ => {
                    self.pending += &format!("(declare-const v{t} Real)\n(declare-const nan{t} Bool)\n");
                    format!("v{t}")
                }
            };
            self.names.insert(t, s.clone());
            return s;
        }
        // iterative post-order to avoid deep recursion on long chains
        let mut stack = vec![(t, false)];
        while let Some((n, expanded)) = stack.pop() {
            if self.names.contains_key(&n) {
                continue;
            }
            match ctx.node(n).clone() {
                Node::Var(v) => {
                    let nm = ctx.var_names[v as usize].clone();
                    if self.declared_vars.insert(v) {
                        self.pending += &format!("(declare-const {nm} {})\n", self.sort());
                    }
                    self.names.insert(n, nm);
                }
                Node::Const(r) => {
                    let s = self.konst(&r);
                    self.names.insert(n, s);
                }
                Node::FConst(b) => {
                    let s = if self.mode == Mode::R {
                        exact_real_of_f64(f64::from_bits(b))
                    } else {
                        let (e, m) = self.float_bits;
                        if (e, m) == (11, 53) {
                            format!("(fp #b{} #b{:011b} #b{:052b})", b >> 63, (b >> 52) & 0x7ff, b & ((1u64 << 52) - 1))
                        } else {
                            format!("((_ to_fp {e} {m}) RNE {})", exact_real_of_f64(f64::from_bits(b)))
                        }
                    };
                    self.names.insert(n, s);
                }
                Node::Neg(a) => {
                    if !expanded {
                        stack.push((n, true));
                        stack.push((a, false));
                    } else {
                        let a = self.names[&a].clone();
                        let s = if self.mode == Mode::R { format!("(- {a})") } else { format!("(fp.neg {a})") };
                        self.define(n, s);
                    }
                }
                Node::Bin(op, a, b) => {
                    if !expanded {
                        stack.push((n, true));
                        stack.push((a, false));
                        stack.push((b, false));
                    } else {
                        let (sa, sb) = (self.names[&a].clone(), self.names[&b].clone());
                        if self.mode == Mode::R {
                            match op {
                                Op::Add | Op::Sub | Op::Mul | Op::Div => {
                                    let o = match op {
                                        Op::Add => "+",
                                        Op::Sub => "-",
                                        Op::Mul => "*",
                                        _ => "/",
                                    };
                                    self.define(n, format!("({o} {sa} {sb})"));
                                }
                                Op::RemEuclid | Op::DivEuclid => {
                                    // a = k*b + r, k integer, 0 <= r < |b|   (definitional for b != 0)
                                    let (r, k) = (format!("re{n}"), format!("ke{n}"));
                                    if self.rem_free {
                                        self.pending += &format!("(declare-const {r} Real)\n(declare-const {k} Int)\n(assert (=> (not (= {sb} 0.0)) (and (<= 0.0 {r}) (< {r} (ite (< {sb} 0.0) (- {sb}) {sb})))))\n");
                                    } else {
                                    self.pending += &format!(
                                        "(declare-const {r} Real)\n(declare-const {k} Int)\n(assert (=> (not (= {sb} 0.0)) (and (= {sa} (+ (* (to_real {k}) {sb}) {r})) (<= 0.0 {r}) (< {r} (ite (< {sb} 0.0) (- {sb}) {sb})))))\n"
                                    );
                                    }
                                    self.names.insert(n, if op == Op::RemEuclid { r } else { format!("(to_real {k})") });
                                }
                                Op::Rem => {
                                    // truncating remainder: a = k*b + r, |r| < |b|, r = 0 or r has the sign of a
                                    let (r, k) = (format!("rt{n}"), format!("kt{n}"));
                                    self.pending += &format!(
                                        "(declare-const {r} Real)\n(declare-const {k} Int)\n(assert (=> (not (= {sb} 0.0)) (and (= {sa} (+ (* (to_real {k}) {sb}) {r})) (< (ite (< {r} 0.0) (- {r}) {r}) (ite (< {sb} 0.0) (- {sb}) {sb})) (or (= {r} 0.0) (= (< {r} 0.0) (< {sa} 0.0))))))\n"
                                    );
                                    self.names.insert(n, r);
                                }
                                Op::Pow => panic!("engine S: operator {op:?} has no mode-R model"),
                            }
                        } else {
                            let o = match op {
                                Op::Add => "uadd",
                                Op::Sub => "usub",
                                Op::Mul => "umul",
                                Op::Div => "udiv",
                                Op::Rem => "urem",
                                Op::RemEuclid => "ureme",
                                Op::DivEuclid => "udive",
                                Op::Pow => "upow",
                            };
                            self.define(n, format!("({o} {sa} {sb})"));
                        }
                    }
                }
            }
        }
        self.names[&t].clone()
    }
    fn define(&mut self, n: u32, body: String) {
        if body.len() > 40 {
            let nm = format!("n{n}");
            self.pending += &format!("(define-fun {nm} () {} {body})\n", self.sort());
            self.defined.insert(n);
            self.names.insert(n, nm);
        } else {
            self.names.insert(n, body);
        }
    }
    pub fn bool_name(&mut self, ctx: &Ctx, id: u32) -> String {
        let nm = ctx.bool_names[id as usize].clone();
        if self.declared_bools.insert(id) {
            self.pending += &format!("(declare-const {nm} Bool)\n");
        }
        nm
    }
    pub fn cmp_text(&self, k: Cmp, a: &str, b: &str) -> String {
        let o = if self.mode == Mode::R {
            match k {
                Cmp::Lt => "<",
                Cmp::Le => "<=",
                Cmp::Gt => ">",
                Cmp::Ge => ">=",
                Cmp::Eq => "=",
            }
        } else {
            match k {
                Cmp::Lt => "fp.lt",
                Cmp::Le => "fp.leq",
                Cmp::Gt => "fp.gt",
                Cmp::Ge => "fp.geq",
                Cmp::Eq => "fp.eq",
            }
        };
        format!("({o} {a} {b})")
    }
    /// comparison between two terms in the session's number semantics
    pub fn cmp(&mut self, ctx: &Ctx, k: Cmp, a: u32, b: u32) -> String {
        if self.abs {
            let nan = |t: u32| if matches!(ctx.node(t), Node::Const(_) | Node::FConst(_)) { "false".to_string() } else { format!("nan{t}") };
            let (na, nb) = (nan(a), nan(b));
            let (va, vb) = (self.term(ctx, a), self.term(ctx, b));
            let o = match k {
                Cmp::Lt => "<",
                Cmp::Le => "<=",
                Cmp::Gt => ">",
                Cmp::Ge => ">=",
                Cmp::Eq => "=",
            };
            return format!("(and (not {na}) (not {nb}) ({o} {va} {vb}))");
        }
        let (a, b) = (self.term(ctx, a), self.term(ctx, b));
        self.cmp_text(k, &a, &b)
    }
    /// value equality of two terms (mode O: identity of IEEE values, all NaNs identified)
    pub fn same(&mut self, ctx: &Ctx, a: u32, b: u32) -> String {
        let (a, b) = (self.term(ctx, a), self.term(ctx, b));
        format!("(= {a} {b})")
    }
    pub fn lit(&mut self, ctx: &Ctx, l: &Lit) -> String {
        let s = match &l.cond {
            Cond::Cmp(k, a, b) => self.cmp(ctx, *k, *a, *b),
            Cond::ToUsize(..) | Cond::ToUsizeBig(..) if self.abs => "true".to_string(),
            Cond::ToUsize(t, Some(k)) => {
                let t = self.term(ctx, *t);
                if self.mode == Mode::R {
                    if *k == 0 {
                        format!("(and (< (- 1.0) {t}) (< {t} 1.0))")
                    } else {
                        format!("(and (<= {k}.0 {t}) (< {t} {}.0))", k + 1)
                    }
                } else if *k == 0 {
                    format!("(and (fp.gt {t} {}) (fp.lt {t} {}))", self.fp_const(-1.0), self.fp_const(1.0))
                } else {
                    format!("(and (fp.geq {t} {}) (fp.lt {t} {}))", self.fp_const(*k as f64), self.fp_const((*k + 1) as f64))
                }
            }
            Cond::ToUsize(t, None) => {
                let t = self.term(ctx, *t);
                if self.mode == Mode::R {
                    format!("(<= {t} (- 1.0))")
                } else {
                    format!("(not (and (fp.gt {t} {}) (fp.lt {t} {})))", self.fp_const(-1.0), self.fp_const(18446744073709551616.0))
                }
            }
            Cond::ToUsizeBig(t, k) => {
                let t = self.term(ctx, *t);
                if self.mode == Mode::R {
                    format!("(>= {t} {k}.0)")
                } else {
                    format!("(and (fp.geq {t} {}) (fp.lt {t} {}))", self.fp_const(*k as f64), self.fp_const(18446744073709551616.0))
                }
            }
            Cond::Bool(id) => self.bool_name(ctx, *id),
        };
        if l.val {
            s
        } else {
            format!("(not {s})")
        }
    }
    pub fn pc(&mut self, ctx: &Ctx, pc: &[Lit]) -> Vec<String> {
        pc.iter().map(|l| self.lit(ctx, l)).collect()
    }
    fn flush_pending(&mut self) {
        if !self.pending.is_empty() {
            let p = std::mem::take(&mut self.pending);
            self.base_log += &p;
            self.send(&p);
        }
    }
    /// assert something permanently (base level)
    pub fn assert_base(&mut self, s: &str) {
        self.flush_pending();
        let line = format!("(assert {s})\n");
        self.base_log += &line;
        self.send(&line);
    }
    /// declare an extra constant at base level (e.g. an oracle-side variable)
    pub fn declare(&mut self, name: &str, sort: &str) {
        self.pending += &format!("(declare-const {name} {sort})\n");
    }
    fn read_line(&mut self, deadline: Instant) -> Option<String> {
        let rx = self.rx.as_ref()?;
        let now = Instant::now();
        let left = if deadline > now { deadline - now } else { Duration::from_millis(0) };
        match rx.recv_timeout(left) {
            Ok(l) => Some(l),
            Err(RecvTimeoutError::Timeout) => None,
            Err(RecvTimeoutError::Disconnected) => None,
        }
    }
    fn query_text(asserts: &[String], tail: &str) -> String {
        let mut q = String::from("(push 1)\n");
        for a in asserts {
            q += &format!("(assert {a})\n");
        }
        q += "(check-sat)\n";
        q += tail;
        q += "(pop 1)\n";
        q
    }
    /// is the conjunction of `asserts` satisfiable (on top of the base level)?
    pub fn check(&mut self, _ctx: &Ctx, asserts: &[String]) -> Answer {
        self.check_with(asserts, &[]).0
    }
    /// as `check`, and on `sat` also returns the values of `get` (raw s-expression text per entry)
    pub fn check_with(&mut self, asserts: &[String], get: &[String]) -> (Answer, Vec<(String, String)>) {
        self.flush_pending();
        self.queries += 1;
        let t0 = Instant::now();
        let tail = if get.is_empty() { String::new() } else { format!("(echo \"<<model>>\")\n(get-value ({}))\n", get.join(" ")) };
        self.last_query = Self::query_text(asserts, &tail);
        // Stage 1: the long-lived incremental process, with a short budget. Accumulated solver state makes
        // nonlinear queries erratic there (measured: 19 s incremental vs 0.03 s in a fresh process), so
        // Stage 2 re-asks anything undecided in a fresh one-shot process with the full budget.
        let stage1_ms = if self.abs { self.timeout_ms } else { self.timeout_ms.min(self.fast_ms) };
        let soft = if self.solver.starts_with("z3") { format!("(set-option :timeout {stage1_ms})\n") } else { String::new() };
        let marker = format!("(echo \"<<done{}>>\")\n", self.queries);
        let q = format!("{soft}{}{marker}", self.last_query);
        self.send(&q);
        let deadline = Instant::now() + Duration::from_millis(stage1_ms + 1000);
        let done = format!("<<done{}>>", self.queries);
        let mut lines: Vec<String> = vec![];
        let mut timed_out = false;
        loop {
            match self.read_line(deadline) {
                Some(l) => {
                    let l = l.trim().trim_matches('"').to_string();
                    if l == done {
                        break;
                    }
                    lines.push(l);
                }
                None => {
                    timed_out = true;
                    break;
                }
            }
        }
        if timed_out {
            self.restart();
        }
        let mut r = if timed_out { (Answer::Unknown("hard timeout (incremental stage)".into()), vec![]) } else { Self::parse_answer(&lines, !get.is_empty()) };
        if matches!(r.0, Answer::Unknown(_)) && !self.abs {
            self.oneshots += 1;
            let lines = one_shot_lines(&self.solver, &format!("{}{}", self.base_log, self.last_query), self.timeout_ms);
            r = match lines {
                Some(l) => Self::parse_answer(&l, !get.is_empty()),
                None => (Answer::Unknown("hard timeout (fresh process)".into()), vec![]),
            };
        }
        self.solver_time += t0.elapsed();
        r
    }
    fn parse_answer(lines: &[String], want_model: bool) -> (Answer, Vec<(String, String)>) {
        let first = lines.first().cloned().unwrap_or_default();
        let model_at = lines.iter().position(|l| l == "<<model>>").unwrap_or(lines.len());
        for (i, l) in lines.iter().enumerate() {
            if l.contains("(error") && (i < model_at || first == "sat") {
                return (Answer::Unknown(format!("solver error: {l}")), vec![]);
            }
        }
        match first.as_str() {
            "unsat" => (Answer::Unsat, vec![]),
            "sat" => {
                let mut vals = vec![];
                if want_model && model_at < lines.len() {
                    let text = lines[model_at + 1..].join(" ");
                    vals = parse_get_value(&text);
                }
                (Answer::Sat, vals)
            }
            other => (Answer::Unknown(if other.is_empty() { "no answer".into() } else { other.to_string() }), vec![]),
        }
    }
    /// an exactly representable f64 constant in the session's float sort
    fn fp_const(&self, v: f64) -> String {
        let (e, m) = self.float_bits;
        if (e, m) == (11, 53) {
            let b = v.to_bits();
            format!("(fp #b{} #b{:011b} #b{:052b})", b >> 63, (b >> 52) & 0x7ff, b & ((1u64 << 52) - 1))
        } else {
            let b = (v as f32).to_bits();
            format!("(fp #b{} #b{:08b} #b{:023b})", b >> 31, (b >> 23) & 0xff, b & ((1u32 << 23) - 1))
        }
    }
    /// IEEE refinement of a mode-O query: the same script with + - * / read as the IEEE-754 operations (round to
    /// nearest even) instead of uninterpreted functions, decided bit-precisely in fresh one-shot processes (z3, then
    /// cvc5). `unsat` means the abstract answer `sat` was an artefact of the abstraction; `sat` comes with a model
    /// of real doubles. % / rem_euclid / powi stay uninterpreted (an over-approximation).
    pub fn ieee_refine(&mut self, asserts: &[String], get: &[String], timeout_ms: u64) -> (Answer, Vec<(String, String)>) {
        if self.mode != Mode::O || self.abs {
            return (Answer::Unknown("IEEE refinement applies to mode O only".into()), vec![]);
        }
        self.flush_pending();
        let tail = if get.is_empty() { String::new() } else { format!("(echo \"<<model>>\")\n(get-value ({}))\n", get.join(" ")) };
        let mut script = format!("{}{}", self.base_log, Self::query_text(asserts, &tail));
        for (f, op) in [("uadd", "fp.add"), ("usub", "fp.sub"), ("umul", "fp.mul"), ("udiv", "fp.div")] {
            script = script.replace(&format!("(declare-fun {f} (F F) F)"), &format!("(define-fun {f} ((a F) (b F)) F ({op} RNE a b))"));
        }
        let t0 = Instant::now();
        let mut r = (Answer::Unknown("no solver answered".into()), vec![]);
        for solver in ["z3", "cvc5"] {
            self.oneshots += 1;
            if let Some(l) = one_shot_lines(solver, &script, timeout_ms) {
                r = Self::parse_answer(&l, !get.is_empty());
                if !matches!(r.0, Answer::Unknown(_)) {
                    break;
                }
            }
        }
        self.solver_time += t0.elapsed();
        r
    }
    /// a self-contained script for the last query (for samples and for second-opinion solvers)
    pub fn standalone_last(&self) -> String {
        format!("{}{}", self.base_log, self.last_query)
    }
    /// run the last query as a self-contained script in a fresh one-shot process of another solver
    pub fn second_opinion(&self, solver: &str, timeout_ms: u64) -> Answer {
        one_shot(solver, &self.standalone_last(), timeout_ms)
    }
    pub fn version(&self) -> String {
        let (bin, _) = solver_cmd(&self.solver);
        Command::new(bin).arg("--version").output().ok().map(|o| String::from_utf8_lossy(&o.stdout).lines().next().unwrap_or("").trim().to_string()).unwrap_or_default()
    }
}
impl Drop for Session {
    fn drop(&mut self) {
        if let Some(mut c) = self.child.take() {
            let _ = c.kill();
            let _ = c.wait();
        }
    }
}

// ---------------------------------------------------------------- s-expressions (get-value parsing)
#[derive(Clone, Debug, PartialEq)]
pub enum Sx {
    Atom(String),
    List(Vec<Sx>),
}
pub fn parse_sx(s: &str) -> Option<Sx> {
    let toks: Vec<String> = s.replace('(', " ( ").replace(')', " ) ").split_whitespace().map(|t| t.to_string()).collect();
    let mut pos = 0;
    fn go(t: &[String], pos: &mut usize) -> Option<Sx> {
        if *pos >= t.len() {
            return None;
        }
        let tok = &t[*pos];
        *pos += 1;
        if tok == "(" {
            let mut v = vec![];
            while *pos < t.len() && t[*pos] != ")" {
                v.push(go(t, pos)?);
            }
            *pos += 1;
            Some(Sx::List(v))
        } else {
            Some(Sx::Atom(tok.clone()))
        }
    }
    go(&toks, &mut pos)
}
impl Sx {
    pub fn text(&self) -> String {
        match self {
            Sx::Atom(a) => a.clone(),
            Sx::List(v) => format!("({})", v.iter().map(|x| x.text()).collect::<Vec<_>>().join(" ")),
        }
    }
}
fn parse_get_value(text: &str) -> Vec<(String, String)> {
    match parse_sx(text) {
        Some(Sx::List(items)) => items
            .into_iter()
            .filter_map(|it| if let Sx::List(p) = it { if p.len() == 2 { Some((p[0].text(), p[1].text())) } else { None } } else { None })
            .collect(),
        _ => vec![],
    }
}
/// exact rational from a Real model value such as `(- (/ 7.0 3.0))`, `2.0`, `(/ 1 3)`
pub fn sx_to_rat(v: &str) -> Option<super::core::Rat> {
    use super::core::Rat;
    fn go(s: &Sx) -> Option<Rat> {
        match s {
            Sx::Atom(a) => {
                let a = a.trim_end_matches('?');
                if let Some((i, f)) = a.split_once('.') {
                    let den = 10i128.checked_pow(f.len() as u32)?;
                    let n: i128 = format!("{i}{f}").parse().ok()?;
                    Some(Rat::new(n, den))
                } else {
                    Some(Rat::new(a.parse().ok()?, 1))
                }
            }
            Sx::List(v) => match v.as_slice() {
                [Sx::Atom(o), x] if o == "-" => {
                    let r = go(x)?;
                    Some(Rat(-r.0, r.1))
                }
                [Sx::Atom(o), x, y] if o == "/" => go(x)?.div(go(y)?),
                [Sx::Atom(o), x] if o == "to_real" => go(x),
                _ => None,
            },
        }
    }
    go(&parse_sx(v)?)
}
/// f64 from an FP model value: `(fp #b0 #b... #b...)`, `(_ NaN 11 53)`, `(_ +oo 11 53)`, `(_ -zero 11 53)` ...
pub fn sx_to_f64(v: &str) -> Option<f64> {
    let sx = parse_sx(v)?;
    if let Sx::List(items) = &sx {
        let a: Vec<String> = items.iter().map(|x| x.text()).collect();
        if a.len() == 4 && a[0] == "fp" {
            let bits = |s: &str| -> Option<(u64, u32)> {
                if let Some(b) = s.strip_prefix("#b") {
                    Some((u64::from_str_radix(b, 2).ok()?, b.len() as u32))
                } else if let Some(h) = s.strip_prefix("#x") {
                    Some((u64::from_str_radix(h, 16).ok()?, 4 * h.len() as u32))
                } else {
                    None
                }
            };
            let (s, _) = bits(&a[1])?;
            let (e, eb) = bits(&a[2])?;
            let (m, mb) = bits(&a[3])?;
            if eb == 11 && mb == 52 {
                return Some(f64::from_bits((s << 63) | (e << 52) | m));
            }
            if eb == 8 && mb == 23 {
                return Some(f32::from_bits(((s as u32) << 31) | ((e as u32) << 23) | m as u32) as f64);
            }
            return None;
        }
        if a.len() == 4 && a[0] == "_" {
            return match a[1].as_str() {
                "NaN" => Some(f64::NAN),
                "+oo" => Some(f64::INFINITY),
                "-oo" => Some(f64::NEG_INFINITY),
                "+zero" => Some(0.0),
                "-zero" => Some(-0.0),
                _ => None,
            };
        }
    }
    None
}

/// run a complete script in a fresh solver process under a hard wall-clock limit; all output lines
pub fn one_shot_lines(solver: &str, script: &str, timeout_ms: u64) -> Option<Vec<String>> {
    let (bin, mut args) = solver_cmd(solver);
    if solver == "cvc5" {
        args.push(format!("--tlimit={timeout_ms}"));
    }
    let pre = if solver.starts_with("z3") { format!("(set-option :timeout {timeout_ms})\n") } else { String::new() };
    let mut child = Command::new(bin).args(args).stdin(Stdio::piped()).stdout(Stdio::piped()).stderr(Stdio::null()).spawn().ok()?;
    let mut stdin = child.stdin.take().unwrap();
    let text = format!("{pre}{script}\n(exit)\n");
    std::thread::spawn(move || {
        let _ = stdin.write_all(text.as_bytes());
    });
    let stdout = child.stdout.take().unwrap();
    let (tx, rx) = channel();
    std::thread::spawn(move || {
        let mut out = String::new();
        let _ = std::io::Read::read_to_string(&mut BufReader::new(stdout), &mut out);
        let _ = tx.send(out);
    });
    let res = rx.recv_timeout(Duration::from_millis(timeout_ms + 2000));
    let _ = child.kill();
    let _ = child.wait();
    res.ok().map(|o| o.lines().map(|l| l.trim().trim_matches('"').to_string()).collect())
}
/// run a complete script in a one-shot solver process under a hard wall-clock limit; first answer line
pub fn one_shot(solver: &str, script: &str, timeout_ms: u64) -> Answer {
    let (bin, mut args) = solver_cmd(solver);
    if solver == "cvc5" {
        args.push(format!("--tlimit={timeout_ms}"));
    }
    if std::env::var("VERIF_DUMP_SMT").is_ok() {
        let _ = std::fs::write(format!("/tmp/verif-dump-{}-{solver}.smt2", std::process::id()), script);
    }
    let pre = if solver.starts_with("z3") { format!("(set-option :timeout {timeout_ms})\n") } else { String::new() };
    let mut child = match Command::new(bin).args(args).stdin(Stdio::piped()).stdout(Stdio::piped()).stderr(Stdio::null()).spawn() {
        Ok(c) => c,
        Err(e) => return Answer::Unknown(format!("cannot start {solver}: {e}")),
    };
    let mut stdin = child.stdin.take().unwrap();
    let text = format!("{pre}{script}\n(exit)\n");
    std::thread::spawn(move || {
        let _ = stdin.write_all(text.as_bytes());
    });
    let stdout = child.stdout.take().unwrap();
    let (tx, rx) = channel();
    std::thread::spawn(move || {
        let mut out = String::new();
        let _ = std::io::Read::read_to_string(&mut BufReader::new(stdout), &mut out);
        let _ = tx.send(out);
    });
    let res = rx.recv_timeout(Duration::from_millis(timeout_ms + 2000));
    let _ = child.kill();
    let _ = child.wait();
    match res {
        Ok(out) => {
            // an error before the verdict makes it inconclusive; get-value errors after `unsat` are expected
            for l in out.lines() {
                let l = l.trim();
                if matches!(l, "sat" | "unsat" | "unknown") {
                    break;
                }
                if l.contains("(error") {
                    return Answer::Unknown(format!("{solver}: {l}"));
                }
            }
            match out.lines().map(|l| l.trim()).find(|l| matches!(*l, "sat" | "unsat" | "unknown")) {
                Some("sat") => Answer::Sat,
                Some("unsat") => Answer::Unsat,
                _ => Answer::Unknown(format!("{solver}: no verdict")),
            }
        }
        Err(_) => Answer::Unknown(format!("{solver}: hard timeout")),
    }
}

/// exact SMT-LIB Real text of a finite double: integer significand times / over a power of two written out
/// in decimal (arbitrary size)
pub fn exact_real_of_f64(f: f64) -> String {
    if f == 0.0 {
        return "0.0".into();
    }
    let bits = f.to_bits();
    let neg = bits >> 63 == 1;
    let exp = ((bits >> 52) & 0x7ff) as i32;
    let frac = bits & ((1u64 << 52) - 1);
    let (m, e) = if exp == 0 { (frac, -1074) } else { (frac | (1u64 << 52), exp - 1075) };
    // decimal digits of 2^|e|
    let mut digits: Vec<u8> = vec![1];
    for _ in 0..e.unsigned_abs() {
        let mut carry = 0u8;
        for d in digits.iter_mut() {
            let v = *d * 2 + carry;
            *d = v % 10;
            carry = v / 10;
        }
        if carry > 0 {
            digits.push(carry);
        }
    }
    let pow: String = digits.iter().rev().map(|d| (b'0' + d) as char).collect();
    let body = if e >= 0 { format!("(* {m}.0 {pow}.0)") } else { format!("(/ {m}.0 {pow}.0)") };
    if neg {
        format!("(- {body})")
    } else {
        body
    }
}

/// approximate f64 of a Real model value of any size (numerators / denominators far beyond i128 included):
/// decimal strings are read through their leading digits and their length
pub fn sx_to_f64_approx(v: &str) -> Option<f64> {
    fn num(a: &str) -> Option<f64> {
        let a = a.trim_end_matches('?');
        let (neg, a) = match a.strip_prefix('-') {
            Some(r) => (true, r),
            None => (false, a),
        };
        let (ip, fp) = a.split_once('.').unwrap_or((a, ""));
        if ip.is_empty() || !ip.bytes().all(|b| b.is_ascii_digit()) || !fp.bytes().all(|b| b.is_ascii_digit()) {
            return None;
        }
        let ip = ip.trim_start_matches('0');
        let v = if ip.len() > 300 {
            f64::INFINITY
        } else if ip.len() > 17 {
            let lead: f64 = ip[..17].parse().ok()?;
            lead * 10f64.powi((ip.len() - 17) as i32)
        } else {
            format!("{}.{}", if ip.is_empty() { "0" } else { ip }, if fp.is_empty() { "0" } else { fp }).parse().ok()?
        };
        Some(if neg { -v } else { v })
    }
    /// (mantissa, decimal exponent) so that quotients of huge integers do not overflow
    fn big(a: &str) -> Option<(f64, i32)> {
        let a = a.trim_end_matches('?');
        let (neg, a) = match a.strip_prefix('-') {
            Some(r) => (true, r),
            None => (false, a),
        };
        let (ip, fp) = a.split_once('.').unwrap_or((a, ""));
        let digits: String = format!("{}{}", ip, fp);
        if digits.is_empty() || !digits.bytes().all(|b| b.is_ascii_digit()) {
            return None;
        }
        let shift = fp.len() as i32;
        let d = digits.trim_start_matches('0');
        if d.is_empty() {
            return Some((0.0, 0));
        }
        let take = d.len().min(17);
        let m: f64 = d[..take].parse().ok()?;
        Some((if neg { -m } else { m }, (d.len() - take) as i32 - shift))
    }
    fn go(s: &Sx) -> Option<(f64, i32)> {
        match s {
            Sx::Atom(a) => big(a),
            Sx::List(v) => match v.as_slice() {
                [Sx::Atom(o), x] if o == "-" => go(x).map(|(m, e)| (-m, e)),
                [Sx::Atom(o), x, y] if o == "/" => {
                    let ((a, ea), (b, eb)) = (go(x)?, go(y)?);
                    if b == 0.0 {
                        None
                    } else {
                        Some((a / b, ea - eb))
                    }
                }
                [Sx::Atom(o), x, y] if o == "*" => {
                    let ((a, ea), (b, eb)) = (go(x)?, go(y)?);
                    Some((a * b, ea + eb))
                }
                [Sx::Atom(o), x] if o == "to_real" => go(x),
                _ => None,
            },
        }
    }
    let _ = num;
    let (m, e) = go(&parse_sx(v)?)?;
    Some(if e > 320 { m * f64::INFINITY } else if e < -400 { m * 0.0 } else { m * 10f64.powi(e.clamp(-300, 300)) * 10f64.powi(e - e.clamp(-300, 300)) })
}
