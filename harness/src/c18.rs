//! C18: custom strategies get validated inputs, correct targets, faithful accessors. Mode O with a *symbolic
//! strategy* defined here for Interp1D and Interp2D, generic over the declared minimum (0..4): its `build` and
//! `interp_into` record the terms and shapes they receive and fail iff a fresh symbolic boolean says so
//! (failure injection at every call index is a solver variable, not an enumeration).
use std::cell::RefCell;

use ndarray::{Array1, ArrayBase, ArrayD, ArrayViewMut, Data, Dimension, Ix1, Ix2, Ix3, Ix4, IxDyn, RemoveAxis};
use ndarray_interp::interp1d::{Interp1D, Interp1DBuilder, Interp1DStrategy, Interp1DStrategyBuilder};
use ndarray_interp::interp2d::{Interp2D, Interp2DBuilder, Interp2DStrategy, Interp2DStrategyBuilder};
use ndarray_interp::{BuilderError, InterpolateError};

use crate::api::{Dyn1, Dyn2, QRank};
use crate::common::Args;
use crate::engine::core::{explore, with_ctx, ExploreCfg, Lit, Mode, Sym};
use crate::engine::json::Json;
use crate::engine::report::{par_run, Chk, Report, Verdict};

#[derive(Default, Clone, Debug)]
struct Log {
    /// (axis x as received, axis y as received, data shape, path-condition length at entry)
    build: Option<(Vec<Sym>, Vec<Sym>, Vec<usize>, usize)>,
    /// (x, y, target shape) per interp_into call
    calls: Vec<(Sym, Sym, Vec<usize>)>,
}
thread_local! { static LOG: RefCell<Log> = RefCell::new(Log::default()); }

pub struct RecBuilder<const MIN: usize>;
pub struct RecStrat;

fn on_build(x: Vec<Sym>, y: Vec<Sym>, shape: Vec<usize>) -> Result<RecStrat, BuilderError> {
    let pclen = with_ctx(|c| c.pc.len());
    LOG.with(|l| l.borrow_mut().build = Some((x, y, shape, pclen)));
    if Sym::nondet_bool("fail_build") {
        Err(BuilderError::ValueError("injected build failure".into()))
    } else {
        Ok(RecStrat)
    }
}
fn on_call(x: Sym, y: Sym, shape: Vec<usize>) -> Result<usize, InterpolateError> {
    let k = LOG.with(|l| {
        let mut l = l.borrow_mut();
        l.calls.push((x, y, shape));
        l.calls.len()
    });
    if Sym::nondet_bool(&format!("fail_call{k}")) {
        Err(InterpolateError::OutOfBounds(format!("injected failure in call {k}")))
    } else {
        Ok(k)
    }
}

impl<Sd, Sx, D, const MIN: usize> Interp1DStrategyBuilder<Sd, Sx, D> for RecBuilder<MIN>
where
    Sd: Data<Elem = Sym>,
    Sx: Data<Elem = Sym>,
    D: Dimension + RemoveAxis,
{
    const MINIMUM_DATA_LENGHT: usize = MIN;
    type FinishedStrat = RecStrat;
    fn build<Sx2>(self, x: &ArrayBase<Sx2, Ix1>, data: &ArrayBase<Sd, D>) -> Result<RecStrat, BuilderError>
    where
        Sx2: Data<Elem = Sym>,
    {
        on_build(x.to_vec(), vec![], data.shape().to_vec())
    }
}
impl<Sd, Sx, D> Interp1DStrategy<Sd, Sx, D> for RecStrat
where
    Sd: Data<Elem = Sym>,
    Sx: Data<Elem = Sym>,
    D: Dimension + RemoveAxis,
{
    fn interp_into(&self, _i: &Interp1D<Sd, Sx, D, Self>, mut target: ArrayViewMut<'_, Sym, D::Smaller>, x: Sym) -> Result<(), InterpolateError> {
        let k = on_call(x, Sym::int(0), target.shape().to_vec())?;
        // a recognisable value per call and lane
        for (j, t) in target.iter_mut().enumerate() {
            *t = x + Sym::int((100 * k + j) as i128);
        }
        Ok(())
    }
}
impl<Sd, Sx, Sy, D, const MIN: usize> Interp2DStrategyBuilder<Sd, Sx, Sy, D> for RecBuilder<MIN>
where
    Sd: Data<Elem = Sym>,
    Sx: Data<Elem = Sym>,
    Sy: Data<Elem = Sym>,
    D: Dimension + RemoveAxis,
    D::Smaller: RemoveAxis,
{
    const MINIMUM_DATA_LENGHT: usize = MIN;
    type FinishedStrat = RecStrat;
    fn build(self, x: &ArrayBase<Sx, Ix1>, y: &ArrayBase<Sy, Ix1>, data: &ArrayBase<Sd, D>) -> Result<RecStrat, BuilderError> {
        on_build(x.to_vec(), y.to_vec(), data.shape().to_vec())
    }
}
impl<Sd, Sx, Sy, D> Interp2DStrategy<Sd, Sx, Sy, D> for RecStrat
where
    Sd: Data<Elem = Sym>,
    Sx: Data<Elem = Sym>,
    Sy: Data<Elem = Sym>,
    D: Dimension + RemoveAxis,
    D::Smaller: RemoveAxis,
{
    fn interp_into(&self, _i: &Interp2D<Sd, Sx, Sy, D, Self>, mut target: ArrayViewMut<'_, Sym, <D::Smaller as Dimension>::Smaller>, x: Sym, y: Sym) -> Result<(), InterpolateError> {
        let k = on_call(x, y, target.shape().to_vec())?;
        for (j, t) in target.iter_mut().enumerate() {
            *t = x + y + Sym::int((100 * k + j) as i128);
        }
        Ok(())
    }
}

enum Built {
    D1(Box<dyn Dyn1<Sym>>),
    D2(Box<dyn Dyn2<Sym>>),
}
fn build(two_d: bool, min: usize, shape: &[usize], dynamic: bool, x: Option<Vec<Sym>>, y: Option<Vec<Sym>>, data: Vec<Sym>) -> Result<Built, BuilderError> {
    let arr = ArrayD::from_shape_vec(IxDyn(shape), data).unwrap();
    macro_rules! b1 {
        ($D:ty, $M:expr) => {{
            let b = Interp1DBuilder::new(arr.into_dimensionality::<$D>().unwrap());
            match x {
                Some(x) => b.x(Array1::from(x)).strategy(RecBuilder::<$M>).build().map(|i| Built::D1(Box::new(i))),
                None => b.strategy(RecBuilder::<$M>).build().map(|i| Built::D1(Box::new(i))),
            }
        }};
    }
    macro_rules! b2 {
        ($D:ty, $M:expr) => {{
            let b = Interp2DBuilder::new(arr.into_dimensionality::<$D>().unwrap()).strategy(RecBuilder::<$M>);
            match (x, y) {
                (Some(x), Some(y)) => b.x(Array1::from(x)).y(Array1::from(y)).build().map(|i| Built::D2(Box::new(i))),
                (Some(x), None) => b.x(Array1::from(x)).build().map(|i| Built::D2(Box::new(i))),
                (None, Some(y)) => b.y(Array1::from(y)).build().map(|i| Built::D2(Box::new(i))),
                (None, None) => b.build().map(|i| Built::D2(Box::new(i))),
            }
        }};
    }
    macro_rules! by_min {
        ($mac:ident, $D:ty) => {
            match min {
                0 => $mac!($D, 0),
                1 => $mac!($D, 1),
                2 => $mac!($D, 2),
                3 => $mac!($D, 3),
                _ => $mac!($D, 4),
            }
        };
    }
    if two_d {
        if dynamic {
            return by_min!(b2, IxDyn);
        }
        match shape.len() {
            2 => by_min!(b2, Ix2),
            3 => by_min!(b2, Ix3),
            4 => by_min!(b2, Ix4),
            _ => by_min!(b2, IxDyn),
        }
    } else {
        if dynamic {
            return by_min!(b1, IxDyn);
        }
        match shape.len() {
            1 => by_min!(b1, Ix1),
            2 => by_min!(b1, Ix2),
            3 => by_min!(b1, Ix3),
            4 => by_min!(b1, Ix4),
            _ => by_min!(b1, IxDyn),
        }
    }
}

#[derive(Clone, Debug)]
struct Cfg {
    two_d: bool,
    min: usize,
    shape: Vec<usize>,
    dynamic: bool,
    /// explicit axis length offsets relative to the data (None = default axis)
    xlen: Option<usize>,
    ylen: Option<usize>,
    qshape: Vec<usize>,
    qrank: QRank,
    /// long axes: only x[pos..pos+3] are unconstrained IEEE values, the rest is a concrete increasing background
    window: Option<usize>,
}
impl Cfg {
    fn name(&self) -> String {
        format!("{} custom strategy MIN={} data{:?}{} x={:?} y={:?} query{:?}/{:?}{}", if self.two_d { "Interp2D" } else { "Interp1D" }, self.min, self.shape, if self.dynamic { "(IxDyn)" } else { "" }, self.xlen, self.ylen, self.qshape, self.qrank, self.window.map(|p| format!(" symbolic window x[{p}..{}]", p + 3)).unwrap_or_default())
    }
}

#[derive(Clone, Debug)]
struct Run {
    built: Result<(), (String, String)>,
    log_build: Option<(Vec<Sym>, Vec<Sym>, Vec<usize>, usize)>,
    /// per entry point: (name, result kind+message, calls recorded during it, returned values)
    eps: Vec<(String, Result<Vec<Sym>, String>, Vec<(Sym, Sym, Vec<usize>)>)>,
    accessors: Vec<(String, bool)>,
    in_range: Option<(bool, Sym)>,
    /// 2-D: is_in_y_range of the same probe
    in_range_y: Option<bool>,
}

fn check_config(cfg: &Cfg) -> Report {
    with_ctx(|c| c.reset_all());
    with_ctx(|c| c.mode = Mode::O);
    let mut chk = Chk::new(Mode::O, 20_000);
    chk.begin_config(&cfg.name());
    let axes = if cfg.two_d { 2 } else { 1 };
    let total: usize = cfg.shape.iter().product();
    let x: Option<Vec<Sym>> = cfg.xlen.map(|l| {
        (0..l)
            .map(|i| match cfg.window {
                Some(p) if i < p || i >= p + 3 => Sym::int(3 * i as i128 - 7),
                _ => Sym::var(&format!("x{i}")),
            })
            .collect()
    });
    let y: Option<Vec<Sym>> = cfg.ylen.map(|l| (0..l).map(|i| Sym::var(&format!("y{i}"))).collect());
    let data: Vec<Sym> = (0..total).map(|i| Sym::var(&format!("d{i}"))).collect();
    let nq: usize = cfg.qshape.iter().product();
    let qx: Vec<Sym> = (0..nq).map(|k| Sym::var(&format!("qx{k}"))).collect();
    let qy: Vec<Sym> = (0..nq).map(|k| Sym::var(&format!("qy{k}"))).collect();
    let qprobe = Sym::var("qprobe");
    let trailing: Vec<usize> = cfg.shape.get(axes..).map(|s| s.to_vec()).unwrap_or_default();
    let lanes: usize = trailing.iter().product();
    let scalar_ok = trailing.is_empty() && !cfg.dynamic && cfg.shape.len() == axes;
    let ecfg = ExploreCfg::new(Mode::O, 8);
    let (paths, st) = explore(&ecfg, || {
        LOG.with(|l| *l.borrow_mut() = Log::default());
        let b = build(cfg.two_d, cfg.min, &cfg.shape, cfg.dynamic, x.clone(), y.clone(), data.clone());
        let log_build = LOG.with(|l| l.borrow().build.clone());
        let it = match b {
            Ok(it) => it,
            Err(e) => {
                let (k, m) = match &e {
                    BuilderError::NotEnoughData(m) => ("NotEnoughData", m.clone()),
                    BuilderError::Monotonic(m) => ("Monotonic", m.clone()),
                    BuilderError::ShapeError(m) => ("ShapeError", m.clone()),
                    BuilderError::ValueError(m) => ("ValueError", m.clone()),
                };
                return Run { built: Err((k.to_string(), m)), log_build, eps: vec![], accessors: vec![], in_range: None, in_range_y: None };
            }
        };
        let mut eps = vec![];
        let mut record = |name: &str, f: &mut dyn FnMut() -> Result<Vec<Sym>, InterpolateError>| {
            LOG.with(|l| l.borrow_mut().calls.clear());
            let r = f().map_err(|e| match e {
                InterpolateError::OutOfBounds(m) => format!("OutOfBounds:{m}"),
            });
            let calls = LOG.with(|l| l.borrow().calls.clone());
            eps.push((name.to_string(), r, calls));
        };
        let qxa = ArrayD::from_shape_vec(IxDyn(&cfg.qshape), qx.clone()).unwrap();
        let qya = ArrayD::from_shape_vec(IxDyn(&cfg.qshape), qy.clone()).unwrap();
        let mut res_shape = cfg.qshape.clone();
        res_shape.extend(&trailing);
        match &it {
            Built::D1(i) => {
                record("interp_array", &mut || i.interp_array(qxa.view(), cfg.qrank).map(|a| a.iter().copied().collect()));
                record("interp_array_into", &mut || {
                    let mut b = ArrayD::from_elem(IxDyn(&res_shape), Sym::int(0));
                    i.interp_array_into(qxa.view(), cfg.qrank, b.view_mut()).map(|_| b.iter().copied().collect())
                });
                if nq > 0 {
                    record("interp", &mut || i.interp(qx[0]).map(|a| a.iter().copied().collect()));
                    record("interp_into", &mut || {
                        let mut b = ArrayD::from_elem(IxDyn(&trailing), Sym::int(0));
                        i.interp_into(qx[nq - 1], b.view_mut()).map(|_| b.iter().copied().collect())
                    });
                    if scalar_ok {
                        record("interp_scalar", &mut || i.interp_scalar(qx[0]).map(|v| vec![v]));
                    }
                }
            }
            Built::D2(i) => {
                record("interp_array", &mut || i.interp_array(qxa.view(), qya.view(), cfg.qrank).map(|a| a.iter().copied().collect()));
                record("interp_array_into", &mut || {
                    let mut b = ArrayD::from_elem(IxDyn(&res_shape), Sym::int(0));
                    i.interp_array_into(qxa.view(), qya.view(), cfg.qrank, b.view_mut()).map(|_| b.iter().copied().collect())
                });
                if nq > 0 {
                    record("interp", &mut || i.interp(qx[0], qy[0]).map(|a| a.iter().copied().collect()));
                    record("interp_into", &mut || {
                        let mut b = ArrayD::from_elem(IxDyn(&trailing), Sym::int(0));
                        i.interp_into(qx[nq - 1], qy[nq - 1], b.view_mut()).map(|_| b.iter().copied().collect())
                    });
                    if scalar_ok {
                        record("interp_scalar", &mut || i.interp_scalar(qx[0], qy[0]).map(|v| vec![v]));
                    }
                }
            }
        }
        // accessors: index_point(i) = (axis[i], data[i, ..]) as term identities
        let mut accessors = vec![];
        let idx = |n: usize| (0..n).map(|i| Sym::int(i as i128)).collect::<Vec<_>>();
        let xa = x.clone().unwrap_or(idx(cfg.shape[0]));
        match &it {
            Built::D1(i) => {
                for k in 0..cfg.shape[0] {
                    let (px, pd) = i.index_point(k);
                    let ok = px.0 == xa[k].0 && pd.iter().zip(data[k * lanes..(k + 1) * lanes].iter()).all(|(a, b)| a.0 == b.0) && pd.len() == lanes;
                    accessors.push((format!("index_point({k})"), ok));
                }
            }
            Built::D2(i) => {
                let ya = y.clone().unwrap_or(idx(cfg.shape[1]));
                for k in 0..cfg.shape[0] {
                    for j in 0..cfg.shape[1] {
                        let (px, py, pd) = i.index_point(k, j);
                        let off = (k * cfg.shape[1] + j) * lanes;
                        let ok = px.0 == xa[k].0 && py.0 == ya[j].0 && pd.len() == lanes && pd.iter().zip(data[off..off + lanes].iter()).all(|(a, b)| a.0 == b.0);
                        accessors.push((format!("index_point({k},{j})"), ok));
                    }
                }
            }
        }
        let in_range = match &it {
            Built::D1(i) => Some((i.is_in_range(qprobe), qprobe)),
            Built::D2(i) => Some((i.is_in_x_range(qprobe), qprobe)),
        };
        let in_range_y = match &it {
            Built::D1(_) => None,
            Built::D2(i) => Some(i.is_in_y_range(qprobe)),
        };
        Run { built: Ok(()), log_build, eps, accessors, in_range, in_range_y }
    });
    chk.add_explore_stats(paths.len(), &st);
    let all_vars: Vec<String> = with_ctx(|c| c.var_names.clone());
    for n in &all_vars {
        chk.term(Sym::var(n));
    }
    let kind = if cfg.two_d { "Interp2D" } else { "Interp1D" };
    let mut n_built = 0;
    let mut n_strategy_called = 0;
    for (pi, p) in paths.iter().enumerate() {
        let run = match &p.result {
            Ok(r) => r,
            Err(m) => {
                chk.finding(&format!("C18:panic:{kind}"), &format!("{}: {m}", cfg.name()), Json::obj().with("config", cfg.name()), None);
                continue;
            }
        };
        // ---- the strategy builder is only invoked with validated inputs
        if let Some((bx, by, shape, pclen)) = &run.log_build {
            n_strategy_called += 1;
            let prefix: Vec<Lit> = p.pc[..(*pclen).min(p.pc.len())].to_vec();
            let pcs = chk.pc(&prefix);
            let mut structural = shape == &cfg.shape && shape.len() >= axes;
            structural &= bx.len() == shape.first().copied().unwrap_or(0) && bx.len() >= cfg.min;
            if cfg.two_d {
                structural &= shape.len() >= 2 && by.len() == shape[1] && by.len() >= cfg.min;
            }
            if !structural {
                chk.finding(&format!("C18:strategy-built-with-unvalidated-shape:{kind}"), &format!("{}: strategy.build received axis lengths {} / {} for data {:?} with declared minimum {}", cfg.name(), bx.len(), by.len(), shape, cfg.min), Json::obj().with("config", cfg.name()), Some(true));
            } else {
                chk.trivially_holds("validated-lengths");
            }
            for (ax, name) in [(bx, "x"), (by, "y")] {
                if ax.len() >= 2 {
                    let strict = format!("(and true {})", (0..ax.len() - 1).map(|i| format!("(fp.lt {} {})", chk.term(ax[i]), chk.term(ax[i + 1]))).collect::<Vec<_>>().join(" "));
                    let mut q = pcs.clone();
                    q.push(format!("(not {strict})"));
                    if let Verdict::Cex(vals) = chk.must_unsat("validated-axis", &format!("path {pi}: strategy.build implies the {name} axis it received is strictly increasing"), &q, &all_vars) {
                        let m = crate::c05::model_f64(&vals);
                        chk.finding(&format!("C18:strategy-built-with-unvalidated-axis:{kind}"), &format!("{}: the custom strategy's build is reached with a {name} axis that is not strictly increasing", cfg.name()), Json::obj().with("config", cfg.name()).with("model", crate::c05::model_json(&m)), Some(true));
                    }
                } else if ax.len() == 1 || (ax.is_empty() && name == "x") {
                    // an axis of length <= 1 is never strictly increasing: build must not have been reached
                    chk.finding(&format!("C18:strategy-built-with-unvalidated-axis:{kind}"), &format!("{}: strategy.build reached with a {name} axis of length {}", cfg.name(), ax.len()), Json::obj().with("config", cfg.name()), Some(true));
                }
            }
        }
        // ---- an injected build error reaches the caller unchanged
        match &run.built {
            Err((k, m)) if m == "injected build failure" => {
                if k == "ValueError" {
                    chk.trivially_holds("build-error-unchanged");
                } else {
                    chk.finding(&format!("C18:build-error-remapped:{kind}"), &format!("{}: injected ValueError arrived as {k}", cfg.name()), Json::obj().with("config", cfg.name()), Some(true));
                }
                continue;
            }
            Err(_) => continue,
            Ok(()) => {
                if let Some(l) = p.pc.iter().find(|l| matches!(&l.cond, crate::engine::core::Cond::Bool(_)) && l.val) {
                    // fail_build chosen but build() returned Ok
                    if with_ctx(|c| matches!(&l.cond, crate::engine::core::Cond::Bool(b) if c.bool_names[*b as usize] == "fail_build")) {
                        chk.finding(&format!("C18:build-error-swallowed:{kind}"), &format!("{}: the strategy's build failed but build() returned Ok", cfg.name()), Json::obj().with("config", cfg.name()), Some(true));
                    }
                }
            }
        }
        n_built += 1;
        // ---- interp_into receives the unmodified query values in order, and correctly shaped targets
        for (name, res, calls) in &run.eps {
            let expected: Vec<(Sym, Sym)> = match name.as_str() {
                "interp_array" | "interp_array_into" => qx.iter().copied().zip(qy.iter().copied()).collect(),
                "interp_into" => vec![(qx[nq - 1], qy[nq - 1])],
                _ => vec![(qx[0], qy[0])],
            };
            let target_shape = if name == "interp_scalar" { vec![] } else { trailing.clone() };
            let injected = matches!(res, Err(m) if m.contains("injected failure"));
            let expect_calls = if injected { calls.len() } else { expected.len() };
            let mut ok = calls.len() == expect_calls && calls.len() <= expected.len();
            for (k, (cx, cy, shape)) in calls.iter().enumerate() {
                ok &= k < expected.len() && cx.0 == expected[k].0 .0 && (!cfg.two_d || cy.0 == expected[k].1 .0) && shape == &target_shape;
            }
            if injected {
                // the failing call is the last one recorded, and its message arrives unchanged
                let want = format!("OutOfBounds:injected failure in call {}", calls.len());
                ok &= matches!(res, Err(m) if *m == want);
            }
            if let Err(m) = res {
                if !m.contains("injected failure") {
                    ok = false;
                }
            }
            if let Ok(vals) = res {
                // results are what the strategy wrote, element by element
                let per = if name == "interp_scalar" { 1 } else { lanes };
                ok &= vals.len() == expected.len() * per;
                for (k, (ex, ey)) in expected.iter().enumerate() {
                    for j in 0..per {
                        if let Some(v) = vals.get(k * per + j) {
                            let want = if cfg.two_d { *ex + *ey + Sym::int((100 * (k + 1) + j) as i128) } else { *ex + Sym::int((100 * (k + 1) + j) as i128) };
                            ok &= v.0 == want.0;
                        }
                    }
                }
            }
            if ok {
                chk.trivially_holds("query-and-target-faithful");
            } else {
                chk.finding(&format!("C18:strategy-call-contract:{kind}:{name}"), &format!("{}: path {pi}: {name}: the strategy's interp_into saw {} calls {:?} (expected the {} query values in order with target shape {:?}); result {:?}", cfg.name(), calls.len(), calls.iter().map(|c| c.2.clone()).collect::<Vec<_>>(), expected.len(), target_shape, res.as_ref().map(|v| v.len())), Json::obj().with("config", cfg.name()).with("entry_point", name.as_str()), Some(true));
            }
        }
        for (name, ok) in &run.accessors {
            if *ok {
                chk.trivially_holds("index_point");
            } else {
                chk.finding(&format!("C18:index_point:{kind}"), &format!("{}: {name} does not return axis[i], data[i]", cfg.name()), Json::obj().with("config", cfg.name()), Some(true));
            }
        }
        // ---- is_in_range / is_in_x_range / is_in_y_range are the closed-range tests (IEEE: false for NaN), decided per path
        if let Some((r, q)) = &run.in_range {
            let idx = |n: usize| (0..n).map(|i| Sym::int(i as i128)).collect::<Vec<_>>();
            let mut tests = vec![(if cfg.two_d { "is_in_x_range" } else { "is_in_range" }, *r, x.clone().unwrap_or(idx(cfg.shape[0])))];
            if let Some(ry) = run.in_range_y {
                tests.push(("is_in_y_range", ry, y.clone().unwrap_or(idx(cfg.shape[1]))));
            }
            for (what, r, ax) in tests {
                let spec = format!("(and (fp.leq {} {q}) (fp.leq {q} {}))", chk.term(ax[0]), chk.term(ax[ax.len() - 1]), q = chk.term(*q));
                let mut a = chk.pc(&p.pc);
                a.push(if r { format!("(not {spec})") } else { spec });
                if let Verdict::Cex(vals) = chk.must_unsat("is_in_range", &format!("path {pi}: {what} = closed range test"), &a, &all_vars) {
                    let m = crate::c05::model_f64(&vals);
                    chk.finding(&format!("C18:{what}"), &format!("{}: {what} returned {r} contradicting first <= q <= last (q = {:?})", cfg.name(), m.get("qprobe")), Json::obj().with("config", cfg.name()).with("model", crate::c05::model_json(&m)), None);
                }
            }
        }
    }
    // vacuity: with structurally valid input the strategy is reached and an interpolator is built
    let valid_structure = cfg.shape.len() >= axes && cfg.shape[0] >= cfg.min.max(2) && cfg.xlen.map(|l| l == cfg.shape[0]).unwrap_or(true) && (!cfg.two_d || (cfg.shape[1] >= cfg.min.max(2) && cfg.ylen.map(|l| l == cfg.shape[1]).unwrap_or(true)));
    if valid_structure {
        chk.rep.witnesses_expected += 2;
        chk.rep.witnesses_found += (n_strategy_called > 0) as u64 + (n_built > 0) as u64;
        if n_strategy_called == 0 || n_built == 0 {
            chk.rep.errors.push(format!("{}: vacuous (strategy reached on {n_strategy_called} paths, built on {n_built})", cfg.name()));
        }
    } else if n_strategy_called > 0 && !cfg.name().is_empty() {
        // structurally invalid input must never reach the strategy (already reported above per path)
    }
    chk.rep
}

fn configs(args: &Args) -> Vec<Cfg> {
    let deep = args.thorough();
    let thorough = true; // the former thorough set costs ~2 s and is now the quick tier as well
    let mut v = vec![];
    let qsets: Vec<(Vec<usize>, QRank)> = if thorough { vec![(vec![2], QRank::Static), (vec![], QRank::Static), (vec![2, 1], QRank::Static), (vec![2], QRank::Dyn), (vec![3], QRank::Static), (vec![1, 2], QRank::Dyn)] } else { vec![(vec![2], QRank::Static), (vec![], QRank::Static), (vec![1, 2], QRank::Static), (vec![2], QRank::Dyn)] };
    for min in 0..=(if thorough { 4usize } else { 3usize }) {
        // 1-D: lengths around the declared minimum, axis explicit (same / other length) or default
        for len in [min.saturating_sub(1).max(1), min.max(2), min.max(2) + 1] {
            for (ti, trailing) in (if deep { vec![vec![], vec![2], vec![1, 2], vec![2, 1, 2], vec![0]] } else { vec![vec![], vec![2], vec![1, 2]] }).into_iter().enumerate() {
                if !thorough && ti == 2 && min % 2 == 1 {
                    continue;
                }
                let mut shape = vec![len];
                shape.extend(&trailing);
                for (qi, (qs, qr)) in qsets.iter().enumerate() {
                    if !thorough && (qi + ti + min) % 2 == 1 {
                        continue;
                    }
                    for xlen in [Some(len), None, Some(len + 1)] {
                        if xlen == Some(len + 1) && qi != 0 {
                            continue;
                        }
                        v.push(Cfg { two_d: false, min, shape: shape.clone(), dynamic: (qi + ti) % 3 == 2, xlen, ylen: None, qshape: qs.clone(), qrank: *qr, window: None });
                    }
                }
            }
        }
    }
    // long axes: a window of three unconstrained elements at every position of a concrete increasing axis (a block-wise
    // validation scan only goes wrong beyond a block)
    for n in if deep { vec![9usize, 17, 18, 33] } else { vec![9usize, 17] } {
        for pos in 0..n - 2 {
            v.push(Cfg { two_d: false, min: 2, shape: vec![n], dynamic: pos % 2 == 1, xlen: Some(n), ylen: None, qshape: vec![2], qrank: QRank::Static, window: Some(pos) });
            if n == 9 {
                v.push(Cfg { two_d: true, min: 2, shape: vec![n, 2], dynamic: false, xlen: Some(n), ylen: None, qshape: vec![1], qrank: QRank::Static, window: Some(pos) });
            }
        }
    }
    // 2-D
    for min in [0usize, 2, 3] {
        for (nx, ny) in [(2, 3), (3, 2), (min.max(1), 3)] {
            for trailing in [vec![], vec![2]] {
                let mut shape = vec![nx, ny];
                shape.extend(&trailing);
                for (qi, (qs, qr)) in qsets.iter().enumerate() {
                    if !thorough && qi >= 2 && !trailing.is_empty() {
                        continue;
                    }
                    v.push(Cfg { two_d: true, min, shape: shape.clone(), dynamic: qi == 3, xlen: Some(nx), ylen: if qi % 2 == 0 { Some(ny) } else { None }, qshape: qs.clone(), qrank: *qr, window: None });
                }
                v.push(Cfg { two_d: true, min, shape: shape.clone(), dynamic: false, xlen: Some(nx), ylen: Some(ny + 1), qshape: vec![1], qrank: QRank::Static, window: None });
            }
        }
    }
    v
}

pub fn run(args: &Args) -> Report {
    let mut rep = par_run(configs(args), args.threads, check_config);
    for f in ["interp1d::Interp1DBuilder::build", "interp1d::Interp1DBuilder::strategy", "interp2d::Interp2DBuilder::build", "interp2d::Interp2DBuilder::strategy", "interp1d::Interp1D::interp", "interp1d::Interp1D::interp_scalar", "interp1d::Interp1D::interp_into", "interp1d::Interp1D::interp_array", "interp1d::Interp1D::interp_array_into", "interp2d::Interp2D::interp", "interp2d::Interp2D::interp_scalar", "interp2d::Interp2D::interp_into", "interp2d::Interp2D::interp_array", "interp2d::Interp2D::interp_array_into", "interp1d::Interp1D::index_point", "interp1d::Interp1D::is_in_range", "interp2d::Interp2D::index_point"] {
        rep.functions.insert(f.to_string());
    }
    rep.bounds.push(format!("recording / failing strategies for Interp1D and Interp2D with declared minimum 0..{}; data lengths around the minimum, trailing (), (2), (1,2), static and IxDyn data; axes explicit (right / wrong length) or default, every axis value an unconstrained IEEE double; queries Ix0, Ix1 x2, Ix2, IxDyn x2 of symbols; entry points interp_array, interp_array_into, interp, interp_into, interp_scalar; failure injection in build and in every interp_into call index as symbolic booleans", 4));
    rep.outside.push("data ranks above 4; strategies that panic".into());
    rep.assumptions.insert("mode O: comparisons bit-precise IEEE; failure injection points are free boolean solver variables (every failure schedule is a path)".into());
    rep
}
