//! C11 (engine S part): the *search* of get_lower_index - range clamps, every possible initial guess and the
//! binary search - returns the bracketing interval. Mode O, symbolic strictly increasing axis and symbolic
//! non-NaN query: the float->usize cast of the guess is a branch point taking every index 0..=len-1 (rounding can push the guess of a query just below the last knot onto len-1), the
//! comparisons are bit-precise IEEE. That the real guess is in that range (and the cast never fails) is
//! decided by engine K on the f32/f64/i32/i64 code for the small lengths.
use ndarray::Array1;
use ndarray_interp::vector_extensions::VectorExtensions;

use crate::common::Args;
use crate::engine::core::{explore, silence_panics, with_ctx, ExploreCfg, Mode, Sym};
use crate::engine::json::Json;
use crate::engine::report::{par_run, Chk, Report, Verdict};
use crate::engine::smt::Answer;

fn native_idx(a: &[f64], q: f64, view_kind: u8) -> Result<usize, String> {
    silence_panics();
    std::panic::catch_unwind(|| match view_kind {
        0 => Array1::from(a.to_vec()).get_lower_index(q),
        1 => {
            let rev = Array1::from(a.iter().rev().copied().collect::<Vec<_>>());
            rev.slice(ndarray::s![..;-1]).get_lower_index(q)
        }
        _ => {
            let wide = Array1::from(a.iter().flat_map(|v| [*v, f64::NAN]).collect::<Vec<_>>());
            wide.slice(ndarray::s![..;2]).get_lower_index(q)
        }
    })
    .map_err(|_| "panic".to_string())
}

fn check_len(item: &(usize, u64, u8)) -> Report {
    let (n, timeout_ms, view_kind) = *item;
    with_ctx(|c| c.reset_all());
    with_ctx(|c| c.mode = Mode::O);
    let mut chk = Chk::new(Mode::O, timeout_ms);
    let vname = ["owned contiguous array", "reversed view (stride -1) of reversed storage", "every-2nd-element view (stride 2)"][view_kind as usize];
    chk.begin_config(&format!("get_lower_index, symbolic axis of length {n}, {vname}"));
    let x: Vec<Sym> = (0..n).map(|i| Sym::var(&format!("x{i}"))).collect();
    let q = Sym::var("q");
    let ecfg = ExploreCfg::new(Mode::O, n - 1);
    let (paths, st) = explore(&ecfg, || {
        for i in 0..n - 1 {
            Sym::assume_lt(x[i], x[i + 1]);
        }
        Sym::assume_not_nan(q);
        match view_kind {
            0 => Array1::from(x.clone()).get_lower_index(q),
            1 => {
                let rev: Array1<Sym> = Array1::from(x.iter().rev().copied().collect::<Vec<_>>());
                rev.slice(ndarray::s![..;-1]).get_lower_index(q)
            }
            _ => {
                let wide: Array1<Sym> = Array1::from(x.iter().flat_map(|v| [*v, Sym::var("junk")]).collect::<Vec<_>>());
                wide.slice(ndarray::s![..;2]).get_lower_index(q)
            }
        }
    });
    chk.add_explore_stats(paths.len(), &st);
    let all_vars: Vec<String> = with_ctx(|c| c.var_names.clone());
    for v in &all_vars {
        chk.term(Sym::var(v));
    }
    let t = |chk: &mut Chk, s: Sym| chk.term(s);
    let (sq, s0, sl) = (t(&mut chk, q), t(&mut chk, x[0]), t(&mut chk, x[n - 1]));
    let mut seen = vec![false; n - 1];
    for (pi, p) in paths.iter().enumerate() {
        let pcs = chk.pc(&p.pc);
        match &p.result {
            Ok(i) => {
                let i = *i;
                if i > n - 2 {
                    chk.finding("C11:returns-last-index", &format!("length {n}: path {pi} returns index {i}"), Json::obj().with("length", n), None);
                    continue;
                }
                seen[i] = true;
                let (xi, xi1) = (t(&mut chk, x[i]), t(&mut chk, x[i + 1]));
                let spec = format!(
                    "(and (=> (and (fp.leq {s0} {sq}) (fp.lt {sq} {sl})) (and (fp.leq {xi} {sq}) (fp.lt {sq} {xi1}))) (=> (fp.leq {sq} {s0}) {}) (=> (fp.geq {sq} {sl}) {}))",
                    i == 0,
                    i == n - 2
                );
                let mut a = pcs.clone();
                a.push(format!("(not {spec})"));
                if let Verdict::Cex(vals) = chk.must_unsat("bracket", &format!("path {pi}: result {i} is the bracketing interval / clamp"), &a, &all_vars) {
                    let m = crate::c05::model_f64(&vals);
                    let xs: Vec<f64> = (0..n).map(|k| *m.get(&format!("x{k}")).unwrap_or(&0.0)).collect();
                    let qv = *m.get("q").unwrap_or(&0.0);
                    let nat = native_idx(&xs, qv, view_kind);
                    let ok = |r: usize| (if xs[0] <= qv && qv < xs[n - 1] { xs[r] <= qv && qv < xs[r + 1] } else { true }) && (if qv <= xs[0] { r == 0 } else { true }) && (if qv >= xs[n - 1] { r == n - 2 } else { true });
                    let mut reproduced = xs.windows(2).all(|w| w[0] < w[1]) && match &nat {
                        Ok(r) => *r > n - 2 || !ok(*r),
                        Err(_) => true,
                    };
                    let mut crafted = String::new();
                    if !reproduced {
                        // The model fixes only the ORDER of the values; natively the guess is computed from them and may differ
                        // from the guess k of this path. Construct an exactly representable axis that realises this path's
                        // guess k together with the model's order position of the query: x_0 = 0, x_last = len-1 (slope 1,
                        // so guess = floor(q)), q = k + 1/2, the other knots spread below and above q.
                        let guess = p.pc.iter().find_map(|l| match &l.cond {
                            crate::engine::core::Cond::ToUsize(_, Some(k)) => Some(*k),
                            _ => None,
                        });
                        let pos = xs.iter().filter(|v| **v <= qv).count();
                        if let (Some(k), true) = (guess, pos >= 1 && pos <= n - 1 && n >= 3) {
                            let bi = pos - 1; // bracket the query belongs to
                            let qn = (k as f64 + 0.5).min(n as f64 - 1.25);
                            let mut ax = vec![0.0f64; n];
                            ax[n - 1] = (n - 1) as f64;
                            for j in 1..n - 1 {
                                ax[j] = if j <= bi { qn * j as f64 / (bi as f64 + 0.5) } else { qn + ((n - 1) as f64 - qn) * (j - bi) as f64 / (n - 1 - bi) as f64 };
                            }
                            if ax.windows(2).all(|w| w[0] < w[1]) && ax[bi] <= qn && qn < ax[bi + 1] {
                                let nat2 = native_idx(&ax, qn, view_kind);
                                if nat2 != Ok(bi) {
                                    reproduced = true;
                                    crafted = format!("axis {ax:?}, query {qn}: expected index {bi}, native result {nat2:?}");
                                }
                            }
                        }
                    }
                    let nat = if crafted.is_empty() { format!("{nat:?}") } else { crafted };
                    chk.finding("C11:wrong-interval", &format!("length {n}: a feasible search path returns {i} for a query it does not bracket"), Json::obj().with("length", n).with("model", crate::c05::model_json(&m)).with("native_result", nat), Some(reproduced));
                }
            }
            Err(msg) => {
                if crate::c05::is_cast_fail(msg) {
                    *chk.rep.cut_by_assumption.entry("engine K (C11 harnesses): the cast of the guess does not fail for a non-NaN query inside a valid axis".into()).or_default() += 1;
                    continue;
                }
                let (ans, vals) = chk.model(&pcs, &all_vars);
                if matches!(ans, Answer::Sat) {
                    let m = crate::c05::model_f64(&vals);
                    let xs: Vec<f64> = (0..n).map(|k| *m.get(&format!("x{k}")).unwrap_or(&0.0)).collect();
                    let qv = *m.get("q").unwrap_or(&0.0);
                    let nat = native_idx(&xs, qv, view_kind);
                    // a panic for SOME in-range guess: only reproducible natively if the real guess takes that value
                    chk.finding("C11:panic-for-some-guess", &format!("length {n}: the search panics for an in-range guess: {msg}"), Json::obj().with("length", n).with("model", crate::c05::model_json(&m)).with("native_result", format!("{nat:?}")), Some(nat.is_err()));
                }
            }
        }
    }
    for (i, s) in seen.iter().enumerate() {
        chk.rep.witnesses_expected += 1;
        if *s {
            chk.rep.witnesses_found += 1;
        } else {
            chk.rep.errors.push(format!("length {n}: no path returns interval {i} (vacuous)"));
        }
    }
    // canary: the claim "result + 1 is the bracket" must be refuted on some path
    if n >= 3 {
        let mut fired = false;
        for p in paths.iter().filter(|p| matches!(p.result, Ok(i) if i + 2 < n)) {
            let i = *p.result.as_ref().unwrap();
            let mut a = chk.pc(&p.pc);
            a.push(format!("(fp.lt {s0} {sq})"));
            a.push(format!("(fp.lt {sq} {sl})"));
            a.push(format!("(not (and (fp.leq {} {sq}) (fp.lt {sq} {})))", chk.term(x[i + 1]), chk.term(x[i + 2])));
            if matches!(chk.feasible(&a), Answer::Sat) {
                fired = true;
                break;
            }
        }
        chk.rep.canaries_expected += 1;
        if fired {
            chk.rep.canaries_fired += 1;
        } else {
            chk.rep.errors.push(format!("length {n}: canary (bracket shifted by one) not refuted"));
        }
    }
    chk.rep
}

pub fn run(args: &Args) -> Report {
    let nmax = if args.thorough() { 14 } else { 10 };
    let to = if args.thorough() { 120_000 } else { 20_000 };
    let mut items: Vec<(usize, u64, u8)> = (2..=nmax).map(|n| (n, to, 0u8)).collect();
    // the same through views with negative and non-unit strides (lengths up to 8)
    for n in 2..=nmax.min(8) {
        items.push((n, to, 1));
        items.push((n, to, 2));
    }
    let mut rep = par_run(items, args.threads, check_len);
    rep.functions.insert("vector_extensions::VectorExtensions::get_lower_index".into());
    rep.bounds.push(format!("engine S: axis length 2..{nmax}, axis values and query all IEEE doubles under x_i < x_i+1 and q non-NaN (infinite queries included); owned arrays, and for lengths up to 8 also reversed (stride -1) and every-2nd-element views; the initial guess takes every index 0..=len-1"));
    rep.outside.push("lengths above the bounds (in particular the 10^4 of the quantifier text and the theoretical f32 guess overflow at n >= 2^23)".into());
    rep.assumptions.insert("mode O: comparisons bit-precise IEEE, arithmetic uninterpreted; that the cast of the real guess does not fail and yields an index in 0..=len-1 follows from the no-panic verdict by the engine K harnesses c11_lower_idx_* for the lengths listed there".into());
    rep
}
