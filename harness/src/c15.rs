//! C15: results are independent of the units of the axis and linear in the data. Mode R; pairs (triples) of
//! interpolators built inside one execution; queries at concrete abscissae (4 per interval / 2x2 per cell
//! and 4 beyond each end with extrapolation), all data, boundary values and the data scale factor symbolic.
use std::collections::BTreeMap;

use crate::api::QRank;
use crate::common::{axis_family, Args, Axis};
use crate::engine::core::{explore, run_concrete, with_ctx, ExploreCfg, Mode, Rat, Sym};
use crate::engine::json::Json;
use crate::engine::report::{par_run, Chk, Report, Verdict};
use crate::engine::smt::sx_to_rat;
use crate::prob::{Call, Kind, Prob};
use crate::spline::{Bc, End, Row};

#[derive(Clone, Debug)]
pub enum Tf {
    /// data (and boundary derivative values) multiplied by the symbolic factor `cd`
    DataScale,
    /// S(y + z) = S(y) + S(z)
    Superpose,
    /// axis and queries shifted: symbolic shift (Linear) or the given constants (x shift, y shift)
    AxisShift(Option<(Rat, Rat)>),
    /// axis and queries multiplied by a positive factor; FirstDeriv values /c, SecondDeriv values /c^2
    AxisScale(Option<(Rat, Rat)>),
}
impl Tf {
    fn name(&self) -> String {
        match self {
            Tf::DataScale => "data-scale(symbolic c)".into(),
            Tf::Superpose => "superposition".into(),
            Tf::AxisShift(None) => "axis-shift(symbolic s)".into(),
            Tf::AxisShift(Some((a, b))) => format!("axis-shift({a},{b})"),
            Tf::AxisScale(None) => "axis-scale(symbolic c>0)".into(),
            Tf::AxisScale(Some((a, b))) => format!("axis-scale({a},{b})"),
        }
    }
    fn class(&self) -> &'static str {
        match self {
            Tf::DataScale => "data-scale",
            Tf::Superpose => "superposition",
            Tf::AxisShift(_) => "axis-shift",
            Tf::AxisScale(_) => "axis-scale",
        }
    }
}
#[derive(Clone, Debug)]
pub struct Cfg {
    pub kind: Kind,
    pub x: Axis,
    pub y: Option<Axis>,
    pub trailing: Vec<usize>,
    pub tf: Tf,
    pub timeout_ms: u64,
}
impl Cfg {
    pub fn name(&self) -> String {
        format!("{} x={}{}{} trailing={:?} transform={}", self.kind.name(), self.x.name, self.x.text(), self.y.as_ref().map(|y| format!(" y={}{}", y.name, y.text())).unwrap_or_default(), self.trailing, self.tf.name())
    }
    fn lanes(&self) -> usize {
        self.trailing.iter().product()
    }
    fn shape(&self) -> Vec<usize> {
        let mut s = vec![self.x.n()];
        if let Some(y) = &self.y {
            s.push(y.n());
        }
        s.extend(&self.trailing);
        s
    }
    /// concrete query abscissae: k points strictly inside every interval plus `outside` points beyond each end
    fn abscissae(ax: &Axis, per: usize, outside: usize) -> Vec<Rat> {
        let mut v = vec![];
        let n = ax.n();
        let span = ax.x[n - 1].sub(ax.x[0]).unwrap();
        for k in 1..=outside {
            v.push(ax.x[0].sub(span.mul(Rat(k as i128 * 3, 7)).unwrap()).unwrap());
            v.push(ax.x[n - 1].add(span.mul(Rat(k as i128 * 2, 5)).unwrap()).unwrap());
        }
        for i in 0..n - 1 {
            let h = ax.x[i + 1].sub(ax.x[i]).unwrap();
            for k in 1..=per {
                v.push(ax.x[i].add(h.mul(Rat(k as i128, per as i128 + 1)).unwrap()).unwrap());
            }
        }
        v
    }
    fn queries(&self) -> Vec<(Rat, Rat)> {
        match &self.y {
            None => {
                let per = if matches!(self.kind, Kind::Linear) { 2 } else { 4 };
                Self::abscissae(&self.x, per, if matches!(self.kind, Kind::Linear) { 2 } else { 4 }).into_iter().map(|q| (q, Rat(0, 1))).collect()
            }
            Some(y) => {
                let (qx, qy) = (Self::abscissae(&self.x, 2, 1), Self::abscissae(y, 2, 1));
                qx.iter().flat_map(|a| qy.iter().map(move |b| (*a, *b))).collect()
            }
        }
    }
}

struct Built {
    base: Prob<Sym>,
    other: Prob<Sym>,
    third: Option<Prob<Sym>>,
    q_base: Vec<(Sym, Sym)>,
    q_other: Vec<(Sym, Sym)>,
    /// expected(out_base[k], out_third[k]) must equal out_other[k]
    combine: Box<dyn Fn(Sym, Option<Sym>) -> Sym>,
    premises: Vec<(Sym, Sym)>, // (a, b): a < b
}

/// all symbols come from `Sym::var`, so the same construction under `Ctx::bindings` yields the exact replay
fn construct(cfg: &Cfg) -> Built {
    let c = |r: &Rat| Sym::rat(r.0, r.1);
    let lanes = cfg.lanes();
    let shape = cfg.shape();
    let total: usize = shape.iter().product();
    let n = cfg.x.n();
    let periodic = matches!(cfg.kind, Kind::Spline(Bc::Periodic));
    let mk_data = |p: &str| -> Vec<Sym> {
        let mut d: Vec<Sym> = (0..total).map(|i| Sym::var(&format!("{p}{i}"))).collect();
        if periodic {
            for j in 0..lanes {
                d[(n - 1) * lanes + j] = d[j];
            }
        }
        d
    };
    let x: Vec<Sym> = cfg.x.x.iter().map(c).collect();
    let y: Option<Vec<Sym>> = cfg.y.as_ref().map(|y| y.x.iter().map(c).collect());
    let vl: Vec<Sym> = (0..lanes).map(|j| Sym::var(&format!("vl{j}"))).collect();
    let vr: Vec<Sym> = (0..lanes).map(|j| Sym::var(&format!("vr{j}"))).collect();
    let base = Prob { kind: cfg.kind.clone(), x: Some(x.clone()), y: y.clone(), shape: shape.clone(), data: mk_data("d"), vl: vl.clone(), vr: vr.clone(), extrapolate: !periodic || true, dynamic: false };
    let qs: Vec<(Sym, Sym)> = cfg.queries().iter().map(|(a, b)| (c(a), c(b))).collect();
    let ends = |j: usize| match &cfg.kind {
        Kind::Spline(bc) => bc.ends(j),
        _ => None,
    };
    match &cfg.tf {
        Tf::DataScale => {
            let cd = Sym::var("cd");
            let other = Prob { data: base.data.iter().map(|d| cd * *d).collect(), vl: vl.iter().map(|v| cd * *v).collect(), vr: vr.iter().map(|v| cd * *v).collect(), ..base.clone() };
            Built { base, other, third: None, q_base: qs.clone(), q_other: qs, combine: Box::new(move |a, _| cd * a), premises: vec![] }
        }
        Tf::Superpose => {
            let z = mk_data("z");
            let wl: Vec<Sym> = (0..lanes).map(|j| Sym::var(&format!("wl{j}"))).collect();
            let wr: Vec<Sym> = (0..lanes).map(|j| Sym::var(&format!("wr{j}"))).collect();
            let third = Prob { data: z.clone(), vl: wl.clone(), vr: wr.clone(), ..base.clone() };
            let other = Prob { data: base.data.iter().zip(&z).map(|(a, b)| *a + *b).collect(), vl: vl.iter().zip(&wl).map(|(a, b)| *a + *b).collect(), vr: vr.iter().zip(&wr).map(|(a, b)| *a + *b).collect(), ..base.clone() };
            Built { base, other, third: Some(third), q_base: qs.clone(), q_other: qs, combine: Box::new(|a, b| a + b.unwrap()), premises: vec![] }
        }
        Tf::AxisShift(s) => {
            let (sx, sy) = match s {
                Some((a, b)) => (c(a), c(b)),
                None => (Sym::var("sx"), Sym::var("sy")),
            };
            let other = Prob { x: Some(x.iter().map(|v| *v + sx).collect()), y: y.as_ref().map(|y| y.iter().map(|v| *v + sy).collect()), ..base.clone() };
            let q_other = qs.iter().map(|(a, b)| (*a + sx, *b + sy)).collect();
            Built { base, other, third: None, q_base: qs, q_other, combine: Box::new(|a, _| a), premises: vec![] }
        }
        Tf::AxisScale(s) => {
            let (cx, cy, prem) = match s {
                Some((a, b)) => (c(a), c(b), vec![]),
                None => {
                    let (cx, cy) = (Sym::var("cx"), Sym::var("cy"));
                    (cx, cy, vec![(Sym::int(0), cx), (Sym::int(0), cy)])
                }
            };
            let conv = |_j: usize, v: Sym, e: Option<End>| match e {
                Some(End::D1) => v / cx,
                Some(End::D2) => v / (cx * cx),
                _ => v,
            };
            let other = Prob {
                x: Some(x.iter().map(|v| cx * *v).collect()),
                y: y.as_ref().map(|y| y.iter().map(|v| cy * *v).collect()),
                vl: (0..lanes).map(|j| conv(j, vl[j], ends(j).map(|e| e.0))).collect(),
                vr: (0..lanes).map(|j| conv(j, vr[j], ends(j).map(|e| e.1))).collect(),
                ..base.clone()
            };
            let q_other = qs.iter().map(|(a, b)| (cx * *a, cy * *b)).collect();
            Built { base, other, third: None, q_base: qs, q_other, combine: Box::new(|a, _| a), premises: prem }
        }
    }
}

type Outs = (Result<Vec<Sym>, String>, Result<Vec<Sym>, String>, Option<Result<Vec<Sym>, String>>);
fn run_all(b: &Built) -> Outs {
    let call = Call::Array(vec![b.q_base.len()], QRank::Static);
    let z = Sym::int(0);
    (b.base.run(&call, &b.q_base, z), b.other.run(&call, &b.q_other, z), b.third.as_ref().map(|t| t.run(&call, &b.q_base, z)))
}

fn replay(cfg: &Cfg, model: &BTreeMap<String, Rat>, k: usize) -> (Option<bool>, Json) {
    with_ctx(|c| {
        c.bindings.clear();
        for (n, v) in model {
            c.bindings.insert(n.clone(), *v);
        }
    });
    let b = construct(cfg);
    let r = run_concrete(Mode::R, || run_all(&b));
    with_ctx(|c| c.bindings.clear());
    let mut rec = Json::obj().with("config", cfg.name()).with("output_element", k);
    let mut mj = Json::obj();
    for (n, v) in model {
        mj.set(n, v.to_string());
    }
    rec.set("model", mj);
    match r {
        Ok((Ok(a), Ok(o), t)) => {
            let t = t.map(|t| t.ok()).flatten();
            let want = (b.combine)(a[k], t.map(|t| t[k]));
            rec.set("expected_exact", want.konst().map(|r| r.to_string()).unwrap_or("?".into()));
            rec.set("observed_exact", o[k].konst().map(|r| r.to_string()).unwrap_or("?".into()));
            if with_ctx(|c| c.overflowed) {
                (None, rec)
            } else {
                (Some(want.konst() != o[k].konst()), rec)
            }
        }
        other => {
            rec.set("exact_replay", format!("{:?}", other.map(|(a, b, _)| (a.map(|_| ()), b.map(|_| ())))));
            (None, rec)
        }
    }
}

/// Native witness search for an axis-scale obligation that the solver refuted but whose exact replay in the model's
/// (ordinary) units does not show a difference: the algebraic counterexample may need units in which an absolute
/// constant matters. The real crate is run at f64 with the model's data in unit 1 and in the units 2^k below; only
/// reached after the solver produced a counterexample, so it never runs on a tree where the obligations hold.
fn native_unit_sweep(cfg: &Cfg, model: &BTreeMap<String, Rat>, rec: &mut Json) -> Option<bool> {
    if !matches!(cfg.tf, Tf::AxisScale(_)) {
        return None;
    }
    let lanes = cfg.lanes();
    let shape = cfg.shape();
    let total: usize = shape.iter().product();
    let n = cfg.x.n();
    let periodic = matches!(cfg.kind, Kind::Spline(Bc::Periodic));
    let val = |name: String, dflt: f64| model.get(&name).map(|r| r.to_f64()).filter(|v| v.is_finite()).unwrap_or(dflt);
    let mut data: Vec<f64> = (0..total).map(|i| val(format!("d{i}"), ((i * 7 + 3) % 11) as f64 - 4.0)).collect();
    if data.iter().all(|v| *v == 0.0) {
        data = (0..total).map(|i| ((i * 7 + 3) % 11) as f64 - 4.0).collect();
    }
    if periodic {
        for j in 0..lanes {
            data[(n - 1) * lanes + j] = data[j];
        }
    }
    let x: Vec<f64> = cfg.x.x.iter().map(|r| r.to_f64()).collect();
    let y: Option<Vec<f64>> = cfg.y.as_ref().map(|y| y.x.iter().map(|r| r.to_f64()).collect());
    let vl: Vec<f64> = (0..lanes).map(|j| val(format!("vl{j}"), 0.5)).collect();
    let vr: Vec<f64> = (0..lanes).map(|j| val(format!("vr{j}"), -0.25)).collect();
    let qs: Vec<(f64, f64)> = cfg.queries().iter().map(|(a, b)| (a.to_f64(), b.to_f64())).collect();
    let ends = |j: usize| match &cfg.kind {
        Kind::Spline(bc) => bc.ends(j),
        _ => None,
    };
    let base = Prob { kind: cfg.kind.clone(), x: Some(x.clone()), y: y.clone(), shape: shape.clone(), data, vl: vl.clone(), vr: vr.clone(), extrapolate: true, dynamic: false };
    let call = Call::Array(vec![qs.len()], QRank::Static);
    let (bo, bv) = crate::prob::native_outcome(&base, &call, &qs, 0.0);
    let bv = match bv {
        Some(v) if v.iter().all(|t| t.is_finite()) => v,
        _ => {
            rec.set("native_unit_sweep", format!("base not usable: {bo}"));
            return None;
        }
    };
    let mut tried = Vec::new();
    for k in [-997i32, -990, -960, -700, -500, -300, 300, 500, 700, 960] {
        let c = 2f64.powi(k);
        let conv = |v: f64, e: Option<End>| match e {
            Some(End::D1) => v / c,
            Some(End::D2) => v / c / c,
            _ => v,
        };
        let other = Prob {
            x: Some(x.iter().map(|v| c * *v).collect()),
            y: y.as_ref().map(|y| y.iter().map(|v| c * *v).collect()),
            vl: (0..lanes).map(|j| conv(vl[j], ends(j).map(|e| e.0))).collect(),
            vr: (0..lanes).map(|j| conv(vr[j], ends(j).map(|e| e.1))).collect(),
            ..base.clone()
        };
        if other.vl.iter().chain(other.vr.iter()).any(|v| !v.is_finite()) {
            continue;
        }
        let q2: Vec<(f64, f64)> = qs.iter().map(|(a, b)| (c * *a, c * *b)).collect();
        let (oo, ov) = crate::prob::native_outcome(&other, &call, &q2, 0.0);
        tried.push(format!("2^{k}: {oo}"));
        if let Some(ov) = ov {
            for (i, (a, o)) in bv.iter().zip(&ov).enumerate() {
                if o.is_finite() && (a - o).abs() > 1e-6 * a.abs().max(1.0) {
                    rec.set("native_unit_sweep", format!("axis unit 2^{k}: output element {i} is {o:e}, in unit 1 it is {a:e} (f64, real crate)"));
                    rec.set("native_axis_unit_log2", k as i64);
                    rec.set("native_data", format!("{:?}", base.data));
                    rec.set("native_boundary_values", format!("{:?} {:?}", vl, vr));
                    rec.set("native_query_in_unit_1", format!("{:?}", qs[i / lanes.max(1)]));
                    return Some(true);
                }
            }
        }
    }
    rec.set("native_unit_sweep", format!("no difference in the units tried: {tried:?}"));
    None
}

fn check_config(cfg: &Cfg) -> Report {
    with_ctx(|c| c.reset_all());
    let mut chk = Chk::new(Mode::R, cfg.timeout_ms);
    chk.begin_config(&cfg.name());
    let b = construct(cfg);
    let maxn = cfg.x.n().max(cfg.y.as_ref().map(|y| y.n()).unwrap_or(0));
    let mut ecfg = ExploreCfg::new(Mode::R, maxn - 1);
    ecfg.timeout_ms = cfg.timeout_ms;
    let (paths, st) = explore(&ecfg, || {
        for (a, bb) in &b.premises {
            Sym::assume_lt(*a, *bb);
        }
        run_all(&b)
    });
    chk.add_explore_stats(paths.len(), &st);
    let all_vars: Vec<String> = with_ctx(|c| c.var_names.clone());
    for v in &all_vars {
        chk.term(Sym::var(v));
    }
    let lanes = cfg.lanes();
    let mut any = false;
    let mut canary_done = false;
    for (pi, p) in paths.iter().enumerate() {
        let pcs = chk.pc(&p.pc);
        match &p.result {
            Ok((Ok(a), Ok(o), t)) => {
                let t = match t {
                    Some(Ok(t)) => Some(t.clone()),
                    Some(Err(e)) => {
                        chk.finding(&format!("C15:not-answered:{}", cfg.kind.name()), &format!("{}: second data set: {e}", cfg.name()), Json::obj().with("config", cfg.name()), None);
                        continue;
                    }
                    None => None,
                };
                any = true;
                for k in 0..a.len() {
                    let want = (b.combine)(a[k], t.as_ref().map(|t| t[k]));
                    if want.0 == o[k].0 {
                        chk.trivially_holds(cfg.tf.class());
                        continue;
                    }
                    let mut q = pcs.clone();
                    q.push(format!("(not (= {} {}))", chk.term(want), chk.term(o[k])));
                    if let Verdict::Cex(vals) = chk.must_unsat(cfg.tf.class(), &format!("path {pi} query {} lane {}: {}", k / lanes.max(1), k % lanes.max(1), cfg.tf.name()), &q, &all_vars) {
                        let model: BTreeMap<String, Rat> = vals.iter().filter_map(|(n, v)| sx_to_rat(v).map(|r| (n.clone(), r))).collect();
                        let (mut rep, mut rec) = replay(cfg, &model, k);
                        if rep != Some(true) {
                            if let Some(true) = native_unit_sweep(cfg, &model, &mut rec) {
                                rep = Some(true);
                            }
                        }
                        chk.finding(&format!("C15:{}:{}", cfg.tf.class(), cfg.kind.name()), &format!("{}: result does not commute with the change of units / is not linear in the data", cfg.name()), rec, rep);
                    }
                    if !canary_done {
                        // wrong relation: expected value plus one
                        let mut q = pcs.clone();
                        q.push(format!("(not (= (+ {} 1.0) {}))", chk.term(want), chk.term(o[k])));
                        chk.canary("relation shifted by 1", &q);
                        canary_done = true;
                    }
                }
            }
            Ok((a, o, _)) => {
                chk.finding(&format!("C15:not-answered:{}", cfg.kind.name()), &format!("{}: base {:?} / transformed {:?}", cfg.name(), a.as_ref().map(|_| "Ok"), o.as_ref().map(|_| "Ok")), Json::obj().with("config", cfg.name()), None);
            }
            Err(m) => chk.finding(&format!("C15:panic:{}", cfg.kind.name()), &format!("{}: {m}", cfg.name()), Json::obj().with("config", cfg.name()), None),
        }
    }
    chk.rep.witnesses_expected += 1;
    if any {
        chk.rep.witnesses_found += 1;
    } else {
        chk.rep.errors.push(format!("{}: no path where all interpolators answered", cfg.name()));
    }
    chk.rep
}

fn configs(args: &Args) -> Vec<Cfg> {
    let thorough = args.thorough();
    let timeout_ms = if thorough { 120_000 } else { 20_000 };
    let r = |n: i128, d: i128| Rat::new(n, d);
    let shifts = vec![(r(1, 3), r(-7, 5)), (r(-1000, 1), r(1 << 20, 1))];
    let scales = if thorough { vec![(r(1, 1 << 20), r(3, 1)), (r(1, 3), r(7, 5)), (r(7, 5), r(1, 3)), (r(3, 1), r(1, 1 << 20)), (r(1 << 20, 1), r(1 << 20, 1))] } else { vec![(r(1, 3), r(7, 5)), (r(1 << 20, 1), r(1, 1 << 20)), (r(7, 5), r(3, 1))] };
    let mut v = vec![];
    let mut tfs_fixed: Vec<Tf> = vec![Tf::DataScale, Tf::Superpose];
    tfs_fixed.extend(shifts.iter().map(|s| Tf::AxisShift(Some(*s))));
    tfs_fixed.extend(scales.iter().map(|s| Tf::AxisScale(Some(*s))));
    // Linear: symbolic shift and symbolic scale as well
    for n in 2..=(if thorough { 5 } else { 4 }) {
        for (ai, x) in axis_family(n, if thorough { 6 } else { 3 }, args.seed).into_iter().enumerate() {
            let trailing = if ai % 2 == 0 { vec![] } else { vec![2] };
            for tf in tfs_fixed.iter().cloned().chain([Tf::AxisShift(None), Tf::AxisScale(None)]) {
                v.push(Cfg { kind: Kind::Linear, x: x.clone(), y: None, trailing: trailing.clone(), tf, timeout_ms });
            }
        }
    }
    // CubicSpline: boundary configurations of C03
    let pairs: Vec<(End, End)> = End::ALL.iter().flat_map(|l| End::ALL.iter().map(move |r| (*l, *r))).collect();
    for n in 3..=(if thorough { 8 } else { 5 }) {
        for (ai, x) in axis_family(n, if thorough { 10 } else { 4 }, args.seed).into_iter().enumerate() {
            let mut bcs = vec![[Bc::NotAKnot, Bc::Natural, Bc::Clamped, Bc::Periodic][(ai + n) % 4].clone()];
            let take = if thorough { 5 } else { 2 };
            for k in 0..take {
                let (l, rr) = pairs[(ai * take + k * 7 + n) % 25];
                bcs.push(Bc::Individual(vec![Row::Mixed(l, rr)]));
            }
            bcs.push(Bc::Individual(vec![Row::Mixed(End::D1, End::D2), Row::Mixed(End::D2, End::D1)]));
            for bc in bcs {
                let lanes = match &bc {
                    Bc::Individual(r) => r.len(),
                    _ => 1 + ai % 2,
                };
                let trailing = if lanes == 1 { vec![] } else { vec![lanes] };
                for tf in &tfs_fixed {
                    v.push(Cfg { kind: Kind::Spline(bc.clone()), x: x.clone(), y: None, trailing: trailing.clone(), tf: tf.clone(), timeout_ms });
                }
            }
        }
    }
    // Bilinear: independent factors for x and y
    for (nx, ny) in if thorough { vec![(2, 2), (2, 3), (3, 2), (3, 3)] } else { vec![(2, 3), (3, 2)] } {
        let fx = axis_family(nx, 3, args.seed);
        let fy = axis_family(ny, 5, args.seed ^ 0x99);
        for k in 0..(if thorough { 3 } else { 2 }) {
            for tf in &tfs_fixed {
                v.push(Cfg { kind: Kind::Bilinear, x: fx[k % fx.len()].clone(), y: Some(fy[(k + 2) % fy.len()].clone()), trailing: if k % 2 == 0 { vec![] } else { vec![2] }, tf: tf.clone(), timeout_ms });
            }
        }
    }
    v
}

pub fn run(args: &Args) -> Report {
    let mut rep = par_run(configs(args), args.threads, check_config);
    crate::validate::validate_spline(args.seed, &mut rep);
    crate::validate::validate_linear(args.seed, &mut rep);
    crate::validate::validate_bilinear(args.seed, &mut rep);
    for f in crate::c0203::FUNCTIONS.iter().chain(crate::c01::FUNCTIONS).chain(crate::c04::FUNCTIONS) {
        rep.functions.insert(f.to_string());
    }
    rep.bounds.push("transforms: data scaled by a SYMBOLIC factor (boundary derivative values likewise); superposition of two independent symbolic data sets; axis and queries shifted (symbolic shift for Linear, constants {1/3,-7/5,-1000,2^20} otherwise); axis and queries scaled (symbolic c > 0 for Linear; constants from {2^-20,1/3,7/5,3,2^20} with independent x/y factors otherwise) with FirstDeriv values /c and SecondDeriv values /c^2".into());
    rep.bounds.push(format!("Linear n = 2..{}, CubicSpline n = 3..{} with whole-data-set kinds, Mixed pairs and a 2-lane per-lane assignment, Bilinear grids 2x3, 3x2{}; concrete axis family; all data and boundary values symbolic", if args.thorough() { 5 } else { 4 }, if args.thorough() { 8 } else { 5 }, if args.thorough() { ", 2x2, 3x3" } else { "" }));
    rep.bounds.push("queries: concrete abscissae - 4 interior points per interval (2 for Linear, 2x2 per cell for Bilinear) and 4 (2; 1 per side and axis) beyond each end with extrapolate(true), all evaluated in one batch call".into());
    rep.outside.push("the bit-for-bit clause for powers of two / negation / dyadic shifts: a statement about IEEE arithmetic itself (exactness of scaling by 2^k) that neither mode R nor uninterpreted arithmetic can express; bit-blasting two copies of the divider does not finish (DESIGN section 4). Not decided.".into());
    rep.outside.push("queries other than the listed abscissae are covered only through the identity theorem for cubics (each piece is a cubic by C02, extrapolation continues it by C06; two cubics agreeing at 4 points are equal) - that last step is not discharged by the solver".into());
    rep.assumptions.insert("mode R: float operations read as exact real operations".into());
    rep
}
