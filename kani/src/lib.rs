//! Engine K: Kani proof harnesses on the concrete monomorphs of the leaf routines of ndarray-interp.
//! Every harness quantifies over ALL values of its `kani::any()` inputs (bit-precise, NaN / inf / -0 included)
//! within the stated array length; unwinding assertions stay on.
#![allow(clippy::all)]
#[cfg(kani)]
mod h {
    use ndarray::*;
    use ndarray_interp::interp1d::*;
    use ndarray_interp::interp2d::*;
    use ndarray_interp::vector_extensions::*;

    // ------------------------------------------------------------------ C11: get_lower_index
    macro_rules! lower_idx_float {
        ($name:ident, $t:ty, $n:expr, $unwind:expr) => {
            #[kani::proof]
            #[kani::unwind($unwind)]
            fn $name() {
                const N: usize = $n;
                let a: [$t; N] = kani::any();
                // strictly increasing (hence NaN-free)
                let mut i = 0;
                while i + 1 < N {
                    kani::assume(a[i] < a[i + 1]);
                    i += 1;
                }
                // preconditions of the statement: span and (len-1)/span finite
                let span = a[N - 1] - a[0];
                kani::assume(span.is_finite());
                kani::assume((((N - 1) as $t) / span).is_finite());
                let q: $t = kani::any();
                kani::assume(!q.is_nan());
                let v = ArrayView1::from(&a[..]);
                let idx = v.get_lower_index(q);
                assert!(idx <= N - 2, "never the last index");
                if a[0] <= q && q < a[N - 1] {
                    assert!(a[idx] <= q && q < a[idx + 1], "bracketing interval");
                }
                if q == a[N - 1] {
                    assert!(idx == N - 2, "last value -> last interval");
                }
                if q <= a[0] {
                    assert!(idx == 0, "at or below the first value");
                }
                if q >= a[N - 1] {
                    assert!(idx == N - 2, "at or above the last value");
                }
                kani::cover!(idx == 0 && q > a[0], "interior query in the first interval");
                kani::cover!(idx == N - 2 && q < a[N - 1], "interior query in the last interval");
                kani::cover!(q.is_infinite(), "infinite query");
            }
        };
    }
    lower_idx_float!(c11_lower_idx_f32_n2, f32, 2, 6);
    lower_idx_float!(c11_lower_idx_f32_n3, f32, 3, 6);
    lower_idx_float!(c11_lower_idx_f32_n4, f32, 4, 7);
    lower_idx_float!(c11_lower_idx_f32_n5, f32, 5, 8);
    lower_idx_float!(c11_lower_idx_f32_n6, f32, 6, 9);
    lower_idx_float!(c11_lower_idx_f64_n2, f64, 2, 6);
    lower_idx_float!(c11_lower_idx_f64_n3, f64, 3, 6);
    lower_idx_float!(c11_lower_idx_f64_n4, f64, 4, 7);
    lower_idx_float!(c11_lower_idx_f64_n5, f64, 5, 8);

    macro_rules! lower_idx_int {
        ($name:ident, $t:ty, $n:expr, $unwind:expr, $bound:expr) => {
            #[kani::proof]
            #[kani::unwind($unwind)]
            fn $name() {
                const N: usize = $n;
                let a: [$t; N] = kani::any();
                let mut i = 0;
                while i + 1 < N {
                    kani::assume(a[i] < a[i + 1]);
                    i += 1;
                }
                // precondition: span and query - first do not overflow
                kani::assume(a[0] >= -$bound && a[N - 1] <= $bound);
                let q: $t = kani::any();
                kani::assume(q >= -2 * $bound && q <= 2 * $bound);
                let v = ArrayView1::from(&a[..]);
                let idx = v.get_lower_index(q);
                assert!(idx <= N - 2);
                if a[0] <= q && q < a[N - 1] {
                    assert!(a[idx] <= q && q < a[idx + 1]);
                }
                if q <= a[0] {
                    assert!(idx == 0);
                }
                if q >= a[N - 1] {
                    assert!(idx == N - 2);
                }
                kani::cover!(idx == N - 2 && q < a[N - 1]);
            }
        };
    }
    lower_idx_int!(c11_lower_idx_i32_n4, i32, 4, 7, 500_000_000i32);
    lower_idx_int!(c11_lower_idx_i64_n4, i64, 4, 7, 2_000_000_000_000_000_000i64);
    lower_idx_int!(c11_lower_idx_i32_n6, i32, 6, 9, 500_000_000i32);

    /// the same through the interpolators' accessors (new_unchecked over views; 2-D non-square)
    #[kani::proof]
    #[kani::unwind(7)]
    fn c11_index_left_of_1d_2d_f64() {
        let x: [f64; 3] = kani::any();
        let y: [f64; 2] = kani::any();
        kani::assume(x[0] < x[1] && x[1] < x[2] && y[0] < y[1]);
        kani::assume((x[2] - x[0]).is_finite() && (2.0 / (x[2] - x[0])).is_finite());
        kani::assume((y[1] - y[0]).is_finite() && (1.0 / (y[1] - y[0])).is_finite());
        let d1 = [0.0f64; 3];
        let d2 = [[0.0f64; 2]; 3];
        let (qx, qy): (f64, f64) = (kani::any(), kani::any());
        kani::assume(!qx.is_nan() && !qy.is_nan());
        let it1 = Interp1D::new_unchecked(ArrayView1::from(&x[..]), ArrayView1::from(&d1[..]), Linear::new());
        let i = it1.get_index_left_of(qx);
        assert!(i <= 1);
        if x[0] <= qx && qx < x[2] {
            assert!(x[i] <= qx && qx < x[i + 1]);
        }
        let it2 = Interp2D::new_unchecked(ArrayView1::from(&x[..]), ArrayView1::from(&y[..]), ArrayView2::from(&d2[..]), Bilinear::new());
        let (ix, iy) = it2.get_index_left_of(qx, qy);
        assert!(ix == i && iy == 0);
        std::mem::forget(it1);
        std::mem::forget(it2);
    }

    // ------------------------------------------------------------------ C12: monotonic_prop
    fn spec<T: PartialOrd + Copy>(a: &[T]) -> (u8, bool) {
        // 0 = NotMonotonic, 1 = Rising, 2 = Falling
        if a.len() < 2 {
            return (0, false);
        }
        let (mut lt, mut eq, mut gt, mut un) = (0, 0, 0, 0);
        let mut i = 0;
        while i + 1 < a.len() {
            if a[i] < a[i + 1] {
                lt += 1
            } else if a[i] == a[i + 1] {
                eq += 1
            } else if a[i] > a[i + 1] {
                gt += 1
            } else {
                un += 1
            }
            i += 1;
        }
        if un > 0 {
            return (0, false);
        }
        if gt == 0 && lt > 0 {
            return (1, eq == 0);
        }
        if lt == 0 && gt > 0 {
            return (2, eq == 0);
        }
        (0, false)
    }
    fn class(m: Monotonic) -> (u8, bool) {
        match m {
            Monotonic::NotMonotonic => (0, false),
            Monotonic::Rising { strict } => (1, strict),
            Monotonic::Falling { strict } => (2, strict),
        }
    }
    macro_rules! mono_float {
        ($name:ident, $t:ty, $n:expr, $unwind:expr) => {
            #[kani::proof]
            #[kani::unwind($unwind)]
            fn $name() {
                let a: [$t; $n] = kani::any();
                let len: usize = kani::any();
                kani::assume(len <= $n);
                let v = ArrayView1::from(&a[..len]);
                let got = class(v.monotonic_prop());
                let mut has_nan = false;
                let mut i = 0;
                while i < len {
                    has_nan |= a[i].is_nan();
                    i += 1;
                }
                if has_nan {
                    assert!(got.0 != 1, "NaN data is never Rising");
                } else {
                    assert!(got == spec(&a[..len]), "classification");
                }
                kani::cover!(got == (1, true) && len == $n, "strictly rising, full length");
                kani::cover!(got == (2, false), "falling, not strict");
                kani::cover!(has_nan && got.0 == 0, "NaN gives NotMonotonic");
            }
        };
    }
    macro_rules! mono_int {
        ($name:ident, $t:ty, $n:expr, $unwind:expr) => {
            #[kani::proof]
            #[kani::unwind($unwind)]
            fn $name() {
                let a: [$t; $n] = kani::any();
                let len: usize = kani::any();
                kani::assume(len <= $n);
                let v = ArrayView1::from(&a[..len]);
                let got = class(v.monotonic_prop());
                assert!(got == spec(&a[..len]), "classification");
                kani::cover!(got == (1, false) && len == $n, "rising with a tie, full length");
            }
        };
    }
    mono_float!(c12_mono_f64_len6, f64, 6, 8);
    mono_float!(c12_mono_f32_len6, f32, 6, 8);
    mono_float!(c12_mono_f64_len8, f64, 8, 10);
    mono_int!(c12_mono_i32_len6, i32, 6, 8);
    mono_int!(c12_mono_i64_len6, i64, 6, 8);
    mono_int!(c12_mono_i32_len8, i32, 8, 10);

    /// strided (every 2nd element) and reversed views of a larger symbolic array
    #[kani::proof]
    #[kani::unwind(12)]
    fn c12_mono_f64_strided_reversed() {
        let a: [f64; 9] = kani::any();
        let base = ArrayView1::from(&a[..]);
        let strided = base.slice(s![..;2]); // 5 elements
        let mut l: [f64; 5] = [0.0; 5];
        let mut i = 0;
        while i < 5 {
            l[i] = a[2 * i];
            i += 1;
        }
        let has_nan = l[0].is_nan() || l[1].is_nan() || l[2].is_nan() || l[3].is_nan() || l[4].is_nan();
        let got = class(strided.monotonic_prop());
        if has_nan {
            assert!(got.0 != 1);
        } else {
            assert!(got == spec(&l[..]));
        }
        let rev = base.slice(s![..;-2]); // a[8], a[6], ..., a[0]
        let mut r: [f64; 5] = [0.0; 5];
        let mut i = 0;
        while i < 5 {
            r[i] = a[8 - 2 * i];
            i += 1;
        }
        let got = class(rev.monotonic_prop());
        if has_nan {
            assert!(got.0 != 1);
        } else {
            assert!(got == spec(&r[..]));
        }
    }

    // ------------------------------------------------------------------ C05 / C18: range tests and accessors
    #[kani::proof]
    #[kani::unwind(6)]
    fn c05_in_range_f64() {
        let xs: [f64; 3] = kani::any();
        let ys: [f64; 3] = kani::any();
        kani::assume(xs[0] < xs[1] && xs[1] < xs[2]);
        let q: f64 = kani::any();
        let it = Interp1D::new_unchecked(ArrayView1::from(&xs[..]), ArrayView1::from(&ys[..]), Linear::new());
        let r = it.is_in_range(q);
        assert!(r == (xs[0] <= q && q <= xs[2]), "closed range test");
        if q.is_nan() {
            assert!(!r, "NaN is out of range");
        }
        kani::cover!(r && q == xs[2], "right end accepted");
        kani::cover!(!r && q > xs[2], "above rejected");
        let (x1, y1) = it.index_point(1);
        assert!(x1 == xs[1] && y1[()].to_bits() == ys[1].to_bits(), "index_point returns axis[i], data[i]");
        std::mem::forget(it);
    }
    #[kani::proof]
    #[kani::unwind(6)]
    fn c05_in_range_f32() {
        let xs: [f32; 2] = kani::any();
        let ys: [f32; 2] = kani::any();
        kani::assume(xs[0] < xs[1]);
        let q: f32 = kani::any();
        let it = Interp1D::new_unchecked(ArrayView1::from(&xs[..]), ArrayView1::from(&ys[..]), Linear::new());
        let r = it.is_in_range(q);
        assert!(r == (xs[0] <= q && q <= xs[1]));
        std::mem::forget(it);
    }
    #[kani::proof]
    #[kani::unwind(6)]
    fn c05_in_xy_range_f64() {
        let xs: [f64; 2] = kani::any();
        let ys: [f64; 3] = kani::any();
        kani::assume(xs[0] < xs[1] && ys[0] < ys[1] && ys[1] < ys[2]);
        let d = [[0.0f64; 3]; 2];
        let (qx, qy): (f64, f64) = (kani::any(), kani::any());
        let it = Interp2D::new_unchecked(ArrayView1::from(&xs[..]), ArrayView1::from(&ys[..]), ArrayView2::from(&d[..]), Bilinear::new());
        assert!(it.is_in_x_range(qx) == (xs[0] <= qx && qx <= xs[1]), "x against the x axis");
        assert!(it.is_in_y_range(qy) == (ys[0] <= qy && qy <= ys[2]), "y against the y axis");
        kani::cover!(it.is_in_x_range(qx) && !it.is_in_y_range(qx), "the two ranges differ");
        let (px, py, _) = it.index_point(1, 2);
        assert!(px == xs[1] && py == ys[2]);
        std::mem::forget(it);
    }

    // ------------------------------------------------------------------ C19: fast path vs general path under CBMC's memory model
    fn nofmt(_a: std::fmt::Arguments<'_>) -> String {
        String::new()
    }
    macro_rules! fastpath {
        ($name:ident, $t:ty, $mk:expr) => {
            /// fast path (Ix1 query) and general path (the same query as IxDyn of rank 1) of interp_array_into on
            /// the real code: CBMC checks every pointer operation of `cast_unchecked` (ptr::read through the
            /// transmuted pointer) and of the accesses that follow; concrete 2-point data, one symbolic choice
            /// between two query vectors (fully symbolic float data does not finish, DESIGN section 4)
            #[kani::proof]
            #[kani::unwind(18)]
            #[kani::stub(alloc::fmt::format, nofmt)]
            fn $name() {
                let xs: [$t; 2] = [($mk)(1), ($mk)(3)];
                let ys: [$t; 2] = [($mk)(2), ($mk)(7)];
                let sel: bool = kani::any();
                let q: [$t; 2] = if sel { [($mk)(2), ($mk)(4)] } else { [($mk)(0), ($mk)(3)] };
                let it = Interp1D::new_unchecked(ArrayView1::from(&xs[..]), ArrayView1::from(&ys[..]), Linear::new().extrapolate(true));
                let mut b1 = [($mk)(0); 2];
                let mut b2 = [($mk)(0); 2];
                let r1 = it.interp_array_into(&ArrayView1::from(&q[..]), ArrayViewMut1::from(&mut b1[..]));
                let qd = ArrayView1::from(&q[..]).into_dyn();
                let r2 = it.interp_array_into(&qd, ArrayViewMut1::from(&mut b2[..]).into_dyn());
                assert!(r1.is_ok() && r2.is_ok());
                assert!(b1[0] == b2[0] && b1[1] == b2[1], "fast path and general path agree");
                kani::cover!(sel);
                kani::cover!(!sel);
                std::mem::forget(r1);
                std::mem::forget(r2);
            }
        };
    }
    fastpath!(c19_fastpath_f64, f64, |v: i32| v as f64);
    fastpath!(c19_fastpath_i32, i32, |v: i32| v);
}
